package main

// The whitelists and accessor tables of the Formulas generators (see formulas.go).
//
// An accessor table maps a field read / method call / package function / package variable of the
// Go source, identified by its go/types key
//
//	field:<pkg>.<Type>.<Field>   method:<pkg>.<Type>.<Method>   func:<pkg>.<Name>   var:<pkg>.<Name>
//	index:<object label>         update:<object label>          lookup:<object label>
//
// to the model's vocabulary.  Only DATA accessors (record projections, map reads, the model of a
// standard-library function) are in these tables; a call of a whitelisted Go function is
// translated to a call of its generated twin.  Whatever is not listed is a translation failure.

import (
	"fmt"
	"go/ast"
	"math/big"
)

func numV(s string) val  { return val{s: s, k: kNum} }
func intV(s string) val  { return val{s: s, k: kInt} }
func boolV(s string) val { return val{s: s, k: kBool} }
func objV(s, obj string) val {
	return val{s: s, k: kObj, obj: obj}
}

func wantObj(t *tr, at ast.Node, key string, recv *val, obj string) error {
	if recv == nil || recv.k != kObj || recv.obj != obj {
		got := "nothing"
		if recv != nil {
			got = recv.k.String() + " " + recv.obj
		}
		return t.fail(at, "%s applied to %s, the accessor table expects a %s (construct: %s)", key, got, obj, t.text(at))
	}
	return nil
}

// =========================================================================================
// Formulas: combat / info / prop / attribute over Model/CombatCore.v's NumOps
// =========================================================================================

const ccNum = "CombatCore.num N"

var ccDialect = &dialect{
	name: "CombatCore", inst: "N", binder: "(N : CombatCore.NumOps)", numT: ccNum,
	add: "CombatCore.nadd N", sub: "CombatCore.nsub N", mul: "CombatCore.nmul N", div: "CombatCore.ndiv N",
	opp: "CombatCore.nopp N", ltb: "CombatCore.nltb N", leb: "CombatCore.nleb N", eqb: "CombatCore.neqb N",
	dim: "CombatCore.dim N", ofZf: "CombatCore.nofZ N",
	ofZ: func(z *big.Int) (string, error) { return app("CombatCore.nofZ N", zlit(z)), nil },
	lit: func(n, d *big.Int) (string, error) { return app("CombatCore.lit N", zlit(n), zlit(d)), nil },
}

func ccAccess(t *tr, key string, recv *val, args []val, at ast.Node) (val, bool, error) {
	hitField := map[string]val{
		"Attacker": objV("Hit.h_att N", "snap"), "Defender": objV("Hit.h_def N", "snap"),
		"BaseDamage": objV("Hit.h_terms N", "terms"),
		"DamageType": intV("Hit.h_dtype N"), "AttackType": intV("Hit.h_atype N"),
		"AsPureDamage": boolV("Hit.h_pure N"),
		"HitRatio":     numV("Hit.h_ratio N"), "DamageValue": numV("Hit.h_flat N"),
		"StanceDamage": numV("Hit.h_stance N"), "EnergyGain": numV("Hit.h_energy N"),
	}
	attrField := map[string]val{
		"HPRatio": numV("CombatCore.s_ratio N"), "Stance": numV("CombatCore.s_stance N"), "Level": intV("CombatCore.s_level N"),
	}
	const fHit, fAttr = "field:info.Hit.", "field:info.Attributes."
	switch {
	case len(key) > len(fHit) && key[:len(fHit)] == fHit:
		if f, ok := hitField[key[len(fHit):]]; ok {
			if err := wantObj(t, at, key, recv, "hit"); err != nil {
				return val{}, false, err
			}
			f.s = app(f.s, recv.s)
			return f, true, nil
		}
	case len(key) > len(fAttr) && key[:len(fAttr)] == fAttr:
		if f, ok := attrField[key[len(fAttr):]]; ok {
			if err := wantObj(t, at, key, recv, "attrs"); err != nil {
				return val{}, false, err
			}
			f.s = app(f.s, recv.s)
			return f, true, nil
		}
	}
	switch key {
	case "field:info.Stats.props":
		if err := wantObj(t, at, key, recv, "snap"); err != nil {
			return val{}, false, err
		}
		return objV(app("CombatCore.s_props N", recv.s), "props"), true, nil
	case "field:info.Stats.attributes":
		if err := wantObj(t, at, key, recv, "snap"); err != nil {
			return val{}, false, err
		}
		return objV(recv.s, "attrs"), true, nil
	case "field:info.Stats.id":
		if err := wantObj(t, at, key, recv, "snap"); err != nil {
			return val{}, false, err
		}
		return intV(app("CombatCore.s_id N", recv.s)), true, nil
	case "method:info.Stats.IsWeakTo": // stats.weakness[t]: a Go map of bool, the model keeps a list
		if err := wantObj(t, at, key, recv, "snap"); err != nil {
			return val{}, false, err
		}
		if len(args) != 1 || args[0].k != kInt {
			return val{}, false, t.fail(at, "IsWeakTo with unexpected arguments")
		}
		return boolV(app("CombatCore.IsWeakTo N", recv.s, args[0].s)), true, nil
	case "index:props", "index:terms": // a missing key reads as 0 (getp)
		if len(args) != 1 || args[0].k != kInt {
			return val{}, false, t.fail(at, "map index of kind %s", args[0].k)
		}
		return numV(app("CombatCore.getp N", recv.s, args[0].s)), true, nil
	case "update:props":
		if len(args) != 2 || args[0].k != kInt || args[1].k != kNum {
			return val{}, false, t.fail(at, "map update with unexpected operands")
		}
		return objV(app("CombatCore.setp N", recv.s, args[0].s, args[1].s), "props"), true, nil
	case "var:combat.BreakBaseDamage": // indexing may panic: the model's parameter brk : Z -> option num
		return objV("brk", "breaktable"), true, nil
	case "index:breaktable":
		if !t.params["brk"] {
			return val{}, false, t.fail(at, "BreakBaseDamage is indexed in a function whose model has no table parameter")
		}
		if len(args) != 1 || args[0].k != kInt {
			return val{}, false, t.fail(at, "table index of kind %s", args[0].k)
		}
		return val{s: app("brk", args[0].s), k: kOptNum}, true, nil
	case "var:prop.damageTypeToDMGPercent", "var:prop.damageTypeToDMGRES", "var:prop.damageTypeToDMGPEN", "var:prop.damageTypeToDMGTaken":
		name := key[len("var:prop."):]
		if !t.g.names[name] {
			return val{}, false, t.fail(at, "table %s has not been generated", name)
		}
		return objV(name, "inttable"), true, nil
	case "index:inttable":
		if len(args) != 1 || args[0].k != kInt {
			return val{}, false, t.fail(at, "table index of kind %s", args[0].k)
		}
		return intV(app(recv.s, args[0].s)), true, nil
	case "func:math.Dim": // v := x - y; if v <= 0 { return 0 }; return v   (NaN aside) — CombatCore.dim
		if len(args) != 2 || args[0].k != kNum || args[1].k != kNum {
			return val{}, false, t.fail(at, "math.Dim with unexpected operands")
		}
		return numV(app("CombatCore.dim N", args[0].s, args[1].s)), true, nil
	}
	return val{}, false, nil
}

func ccFormulaKey(t *tr, m val, z *big.Int, at ast.Node) (string, error) { return zlit(z), nil }

var snapRecv = map[string]val{"stats": objV("s", "snap")}

const snapParam = "(s : CombatCore.snap N)"

// The CombatCore translation is generated as four files, so that a property depends only on the
// sources its model covers:
//
//	FormulasInfo   constants, pkg/engine/prop, info/map.go, info/stats.go            (C04 C17 C06 C07)
//	FormulasAttr   pkg/engine/attribute (requires FormulasInfo)                        (C04 C17 C07)
//	Formulas       combat/damage.go, hit.go, break.gen.go, shield/absorb.go as the hit
//	               model uses it (requires FormulasInfo)                               (C04)
//	FormulasHeal   combat/heal.go (requires FormulasInfo)                              (C17)
func genCC(root, which string) *gen {
	w := &fworld{name: "CombatCore", d: ccDialect, access: ccAccess, formulaKey: ccFormulaKey}
	switch which {
	case "FormulasInfo":
		w.requires = "From SR Require Model.CombatCore.\n"
		g := newGen(root, w, "./pkg/engine/info", "./pkg/engine/prop", "./pkg/model")
		g.prelude(which)
		partInfo(g)
		return g
	case "FormulasAttr":
		w.requires = "From SR Require Model.CombatCore.\nFrom SR Require Gen.FormulasInfo.\n"
		g := newGen(root, w, "./pkg/engine/info", "./pkg/engine/prop", "./pkg/model", "./pkg/engine/attribute")
		g.imported("FormulasInfo", partInfo)
		g.prelude(which)
		partAttr(g)
		return g
	case "Formulas":
		w.requires = "From SR Require Model.CombatCore Model.Hit.\nFrom SR Require Gen.FormulasInfo.\n"
		g := newGen(root, w, "./pkg/engine/info", "./pkg/engine/prop", "./pkg/model", "./pkg/engine/combat", "./pkg/engine/shield")
		g.imported("FormulasInfo", partInfo)
		g.prelude(which)
		partCombat(g)
		return g
	case "FormulasHeal":
		w.requires = "From SR Require Model.CombatCore.\nFrom SR Require Gen.FormulasInfo.\n"
		g := newGen(root, w, "./pkg/engine/info", "./pkg/engine/prop", "./pkg/model", "./pkg/engine/combat")
		g.imported("FormulasInfo", partInfo)
		g.prelude(which)
		partHeal(g)
		return g
	}
	die("unknown generator %q", which)
	return nil
}

func partInfo(g *gen) {
	g.emit("(* ---------------------------------------------------------------- constants *)\n\n")
	g.enum("pkg/engine/prop", "Property", "prop_", "")
	g.enum("pkg/model", "DamageType", "", "")
	g.enum("pkg/model", "AttackType", "", "")
	g.enum("pkg/model", "DamageFormula", "", "")
	g.enum("pkg/model", "HealFormula", "", "")
	g.enum("pkg/model", "ModifyHPRatioType", "", "")
	g.enum("pkg/engine/info", "TargetState", "TargetState_", "")

	g.emit("(* ---------------------------------------------------------------- tables *)\n\n")
	g.intMapTable("pkg/engine/prop", "damageTypeToDMGPercent", "damageTypeToDMGPercent")
	g.intMapTable("pkg/engine/prop", "damageTypeToDMGRES", "damageTypeToDMGRES")
	g.intMapTable("pkg/engine/prop", "damageTypeToDMGPEN", "damageTypeToDMGPEN")
	g.intMapTable("pkg/engine/prop", "damageTypeToDMGTaken", "damageTypeToDMGTaken")

	g.emit("(* ---------------------------------------------------------------- pkg/engine/prop *)\n\n")
	for _, n := range []string{"DamagePercent", "DamageRES", "DamagePEN", "DamageTaken"} {
		g.fn(fnSpec{pkg: "pkg/engine/prop", fn: n, coq: "prop_" + n, key: "func:prop." + n, rk: kInt, noInst: true,
			params: "(dmgType : Z)", ret: "Z", bind: map[string]val{"dmgType": intV("dmgType")}})
	}

	g.emit("(* ---------------------------------------------------------------- pkg/engine/info *)\n\n")
	g.fn(fnSpec{pkg: "pkg/engine/info", fn: "PropMap.Modify", coq: "PropMap_Modify", key: "method:info.PropMap.Modify", rk: kObj,
		params: "(m : CombatCore.pmap N) (p : Z) (amt : " + ccNum + ")", ret: "CombatCore.pmap N", result: "m",
		bind: map[string]val{"m": objV("m", "props"), "p": intV("p"), "amt": numV("amt")}})
	g.fn(fnSpec{pkg: "pkg/engine/info", fn: "statCalc", coq: "statCalc", key: "func:info.statCalc", rk: kNum,
		params: "(base percent flat : " + ccNum + ")", ret: ccNum,
		bind: map[string]val{"base": numV("base"), "percent": numV("percent"), "flat": numV("flat")}})
	g.fn(fnSpec{pkg: "pkg/engine/info", fn: "(*Stats).GetProperty", coq: "GetProperty", key: "method:info.Stats.GetProperty", rk: kNum,
		params: snapParam + " (p : Z)", ret: ccNum, bind: map[string]val{"stats": objV("s", "snap"), "p": intV("p")}})
	for _, gt := range []struct {
		name string
		rk   kind
	}{{"ID", kInt}, {"Level", kInt}, {"CurrentHPRatio", kNum}, {"Stance", kNum}, {"MaxHP", kNum}, {"HP", kNum}, {"ATK", kNum}, {"DEF", kNum},
		{"CurrentHP", kNum}, {"CritChance", kNum}, {"CritDamage", kNum}, {"HealBoost", kNum}, {"EnergyRegen", kNum}, {"BreakEffect", kNum}} {
		ret := ccNum
		if gt.rk == kInt {
			ret = "Z"
		}
		g.fn(fnSpec{pkg: "pkg/engine/info", fn: "(*Stats)." + gt.name, coq: gt.name, key: "method:info.Stats." + gt.name, rk: gt.rk,
			params: snapParam, ret: ret, bind: snapRecv})
	}
	for _, n := range []string{"DamagePercent", "DamageRES"} {
		g.fn(fnSpec{pkg: "pkg/engine/info", fn: "(*Stats)." + n, coq: n, key: "method:info.Stats." + n, rk: kNum,
			params: snapParam + " (dmg : Z)", ret: ccNum, bind: map[string]val{"stats": objV("s", "snap"), "dmg": intV("dmg")}})
	}

}

func partCombat(g *gen) {
	g.floatTable("pkg/engine/combat", "BreakBaseDamage", "BreakBaseDamage")
	g.fn(fnSpec{pkg: "pkg/model", fn: "AttackType.IsQualified", coq: "AttackType_IsQualified", key: "method:model.AttackType.IsQualified",
		rk: kBool, noInst: true, params: "(t : Z)", ret: "bool", bind: map[string]val{"t": intV("t")}})
	g.emit("(* ---------------------------------------------------------------- pkg/engine/combat/damage.go *)\n\n")
	hitB := map[string]val{"h": objV("h", "hit")}
	const hitP = "(h : Hit.hit N)"
	g.fn(fnSpec{pkg: "pkg/engine/combat", fn: "baseDamage", coq: "baseDamage", key: "func:combat.baseDamage", rk: kOptNum,
		params: "(brk : Z -> option (" + ccNum + ")) " + hitP, ret: "option (" + ccNum + ")", bind: hitB})
	for _, n := range []string{"bonusDamage", "defMult", "res", "vul", "toughness", "damageReduce"} {
		g.fn(fnSpec{pkg: "pkg/engine/combat", fn: n, coq: n, key: "func:combat." + n, rk: kNum, params: hitP, ret: ccNum, bind: hitB})
	}
	g.fn(fnSpec{pkg: "pkg/engine/combat", fn: "crit", coq: "crit", key: "func:combat.crit", rk: kBool,
		params: hitP + " (draw : " + ccNum + ")", ret: "bool",
		bind:  map[string]val{"h": objV("h", "hit"), "rdm": objV("draw", "rand")},
		calls: map[string]val{"method:rand.Rand.Float64": numV("draw")}, // the one value taken from the run's random source
		doc:   "rdm.Float64() is the parameter draw"})
	g.fn(fnSpec{pkg: "pkg/engine/combat", fn: "critDmg", coq: "critDmg", key: "func:combat.critDmg", rk: kNum,
		params: hitP + " (crit : bool)", ret: ccNum, bind: map[string]val{"h": objV("h", "hit"), "crit": boolV("crit")}})

	g.emit("(* ---------------------------------------------------------------- pkg/engine/combat/hit.go *)\n\n")
	g.fn(fnSpec{pkg: "pkg/engine/combat", fn: "(*Manager).performHit", coq: "performHit_damage", mode: mExtract,
		params: hitP + " (bd : " + ccNum + ") (crit : bool)", ret: "list (" + ccNum + ") * " + ccNum,
		bind:  map[string]val{"hit": objV("h", "hit"), "crit": boolV("crit")},
		calls: map[string]val{"func:combat.baseDamage": numV("bd")}, // the model handles the panic of the table lookup
		vars:  []string{"base", "defMult", "res", "vul", "toughnessMultiplier", "fatigue", "allDamageReduce", "critDmg", "total"}, count: 9,
		allow: []string{"crit := crit(hit, mgr.rdm)"},
		res:   "([{base}; {defMult}; {res}; {vul}; {toughnessMultiplier}; {fatigue}; {allDamageReduce}; {critDmg}], {total})"})
	g.fn(fnSpec{pkg: "pkg/engine/combat", fn: "(*Manager).performHit", mode: mOccur, lhs: "modify.Amount",
		names:  []string{"performHit_hpAmount", "performHit_stanceAmount", "performHit_energyAmount"},
		guards: []string{"", "performHit_stanceCond", ""},
		params: hitP + " (hpUpdate : " + ccNum + ")", ret: ccNum,
		bind:  map[string]val{"hit": objV("h", "hit"), "hpUpdate": numV("hpUpdate")},
		allow: []string{"hpUpdate := mgr.shld.AbsorbDamage(hit.Defender.ID(), total)"}})
	g.fn(fnSpec{pkg: "pkg/engine/combat", fn: "(*Manager).newHit", coq: "newHit_ratio", mode: mExtract,
		params: "(r : " + ccNum + ")", ret: ccNum, pseudo: map[string]val{"atk.HitRatio": numV("r")},
		vars: []string{"ratio"}, count: 2, res: "{ratio}"})

	partAbsorbCC(g)
}

func partHeal(g *gen) {
	g.emit("(* ---------------------------------------------------------------- pkg/engine/combat/heal.go *)\n\n")
	g.fn(fnSpec{pkg: "pkg/engine/combat", fn: "(*Manager).Heal", coq: "heal_amounts", mode: mExtract, block: "range:heal.Targets",
		params: "(healer target : CombatCore.snap N) (terms : CombatCore.pmap N) (flat : " + ccNum + ")", ret: ccNum + " * " + ccNum,
		bind:   map[string]val{"source": objV("healer", "snap"), "target": objV("target", "snap"), "baseHeal": objV("terms", "terms")},
		pseudo: map[string]val{"e.HealValue": numV("flat")},
		vars:   []string{"hpLost", "base", "healAmount", "overflow"}, count: 6,
		allow: []string{"source := mgr.attr.Stats(heal.Source)", "target := mgr.attr.Stats(t)",
			"baseHeal := make(info.HealMap, len(heal.BaseHeal))", "baseHeal[k] = v",
			"source, target, baseHeal = e.Healer, e.Target, e.BaseHeal"},
		res: "({healAmount}, {overflow})"})

}

func partAttr(g *gen) {
	g.emit("(* Go's int is 64 bits wide: an integer addition of a translated statement wraps *)\n" +
		"Definition wrap_int64 (z : Z) : Z := (z + 2 ^ 63) mod 2 ^ 64 - 2 ^ 63.\n\n")
	g.names["wrap_int64"] = true
	g.emit("(* ---------------------------------------------------------------- pkg/engine/attribute *)\n\n")
	const at = "pkg/engine/attribute"
	stB := map[string]val{"stats": objV("st", "snap")}
	const stP = "(st : CombatCore.snap N)"
	g.fn(fnSpec{pkg: at, fn: "New", coq: "attribute_initial_sp", mode: mKVField, field: "sp", noInst: true, ret: "Z"})
	g.fn(fnSpec{pkg: at, fn: "(*Service).AddTarget", coq: "addTarget_energy", mode: mExtract,
		params: "(energy maxEnergy : " + ccNum + ")", ret: ccNum,
		pseudo: map[string]val{"attr.Energy": numV("energy"), "attr.MaxEnergy": numV("maxEnergy")},
		vars:   []string{"attr.Energy"}, count: 1, res: "{attr.Energy}"})
	g.fn(fnSpec{pkg: at, fn: "(*Service).AddTarget", coq: "addTarget_hpRatio", mode: mExtract,
		params: "(ratio : " + ccNum + ")", ret: ccNum, pseudo: map[string]val{"attr.HPRatio": numV("ratio")},
		vars: []string{"attr.HPRatio"}, count: 1, res: "{attr.HPRatio}"})
	g.fn(fnSpec{pkg: at, fn: "(*Service).SetHP", coq: "setHP_ratio", mode: mExtract,
		params: stP + " (amount : " + ccNum + ")", ret: ccNum, bind: stB, pseudo: map[string]val{"data.Amount": numV("amount")},
		vars: []string{"attr.HPRatio"}, count: 2, allow: []string{"stats := s.Stats(data.Target)"}, res: "{attr.HPRatio}"})
	g.fn(fnSpec{pkg: at, fn: "(*Service).ModifyHPByAmount", coq: "modifyHPByAmount_ratio", mode: mExtract,
		params: stP + " (amount : " + ccNum + ")", ret: ccNum, bind: stB, pseudo: map[string]val{"data.Amount": numV("amount")},
		vars: []string{"newHP", "attr.HPRatio"}, count: 3, allow: []string{"stats := s.Stats(data.Target)"}, res: "{attr.HPRatio}"})
	g.fn(fnSpec{pkg: at, fn: "(*Service).ModifyHPByRatio", coq: "modifyHPByRatio_ratio", mode: mExtract, abort: true,
		params: stP + " (cur ratio : " + ccNum + ") (rtype : Z) (floor : " + ccNum + ")", ret: "option (" + ccNum + ")",
		bind:   map[string]val{"stats": objV("st", "snap"), "oldRatio": numV("cur")},
		pseudo: map[string]val{"data.Ratio": numV("ratio"), "data.RatioType": intV("rtype"), "data.Floor": numV("floor")},
		vars:   []string{"newRatio"}, count: 4, allow: []string{"oldRatio := attr.HPRatio", "stats := s.Stats(data.Target)"},
		res: "{newRatio}"})
	g.fn(fnSpec{pkg: at, fn: "(*Service).SetStance", coq: "setStance_amount", mode: mExtract,
		params: "(maxStance amount : " + ccNum + ")", ret: ccNum,
		pseudo: map[string]val{"data.Amount": numV("amount"), "attr.MaxStance": numV("maxStance")},
		vars:   []string{"data.Amount"}, count: 1, res: "{data.Amount}"})
	g.fn(fnSpec{pkg: at, fn: "(*Service).ModifyStance", coq: "modifyStance_amount", mode: mExtract,
		params: stP + " (cur amount : " + ccNum + ")", ret: ccNum, bind: stB,
		pseudo: map[string]val{"attr.Stance": numV("cur"), "data.Amount": numV("amount")},
		vars:   []string{"newStance"}, count: 1, allow: []string{"stats := s.Stats(data.Source)"}, res: "{newStance}",
		doc: "st = the stats of the SOURCE of the stance change (the whitelisted assignment stats := s.Stats(data.Source))"})
	g.fn(fnSpec{pkg: at, fn: "(*Service).SetEnergy", coq: "setEnergy_amount", mode: mExtract,
		params: "(maxEnergy amount : " + ccNum + ")", ret: ccNum,
		pseudo: map[string]val{"data.Amount": numV("amount"), "attr.MaxEnergy": numV("maxEnergy")},
		vars:   []string{"attr.Energy"}, count: 2, res: "{attr.Energy}"})
	g.fn(fnSpec{pkg: at, fn: "(*Service).ModifyEnergy", coq: "modifyEnergy_amount", mode: mKVField, field: "Amount",
		params: stP + " (cur amount : " + ccNum + ")", ret: ccNum, bind: stB,
		pseudo: map[string]val{"attr.Energy": numV("cur"), "data.Amount": numV("amount")},
		allow:  []string{"stats := s.Stats(data.Target)"},
		doc:    "st = the stats of the TARGET of the energy change (the whitelisted assignment stats := s.Stats(data.Target))"})
	g.fn(fnSpec{pkg: at, fn: "(*Service).ModifyEnergyFixed", coq: "modifyEnergyFixed_amount", mode: mKVField, field: "Amount",
		params: "(cur amount : " + ccNum + ")", ret: ccNum,
		pseudo: map[string]val{"t.attributes.Energy": numV("cur"), "data.Amount": numV("amount")}})
	g.fn(fnSpec{pkg: at, fn: "(*Service).ModifySP", coq: "modifySP_sp", mode: mExtract, noInst: true, wrapInt: true,
		params: "(sp amount : Z)", ret: "Z", pseudo: map[string]val{"s.sp": intV("sp"), "data.Amount": intV("amount")},
		vars: []string{"s.sp"}, count: 2, res: "{s.sp}"})

}

func partAbsorbCC(g *gen) {
	g.emit("(* ---------------------------------------------------------------- pkg/engine/shield/absorb.go *)\n\n")
	absB := map[string]val{"damage": numV("damage"), "damageOut": numV("dOut"), "newMaxShieldHP": numV("newMax"), "maxShieldID": intV("maxId")}
	g.fn(fnSpec{pkg: "pkg/engine/shield", fn: "(*Manager).AbsorbDamage", coq: "absorb_init", mode: mExtract,
		params: "(damage : " + ccNum + ")", ret: ccNum + " * " + ccNum, bind: map[string]val{"damage": numV("damage")},
		vars: []string{"damageOut", "newMaxShieldHP"}, count: 2, shallow: true,
		allow: []string{"damageOut = remaining", "newMaxShieldHP = shield.hp"}, res: "({damageOut}, {newMaxShieldHP})"})
	g.fn(fnSpec{pkg: "pkg/engine/shield", fn: "(*Manager).AbsorbDamage", coq: "absorb_step", mode: mExtract, block: "range:mgr.targets[target]",
		params: "(damage hp : " + ccNum + ") (k : Z) (dOut newMax : " + ccNum + ") (maxId : Z)",
		ret:    ccNum + " * " + ccNum + " * " + ccNum + " * Z", bind: absB,
		pseudo: map[string]val{"shield.hp": numV("hp"), "shield.name": intV("k")},
		vars:   []string{"remaining", "shield.hp", "damageOut", "newMaxShieldHP", "maxShieldID"}, count: 4,
		allow: []string{"damageOut := damage", "newMaxShieldHP := 0.0"},
		res:   "({shield.hp}, {damageOut}, {newMaxShieldHP}, {maxShieldID})",
		doc:   "one iteration of the loop over the target's shields; the shield key (a Go string) is the model's integer key"})
}

// =========================================================================================
// FormulasShield: shield/add.go and absorb.go over Model/Shield.v's NumOps
// =========================================================================================

var shDialect = &dialect{
	name: "Shield", inst: "O", binder: "{T : Type} (O : Shield.NumOps T)", numT: "T",
	add: "Shield.n_add O", sub: "Shield.n_sub O", mul: "Shield.n_mul O",
	ltb: "Shield.n_ltb O", leb: "Shield.n_leb O", eqb: "Shield.n_eqb O", dim: "Shield.dim O",
	ofZ: func(z *big.Int) (string, error) {
		switch {
		case z.Sign() == 0:
			return "(Shield.n_zero O)", nil
		case z.Cmp(big.NewInt(1)) == 0:
			return "(Shield.n_one O)", nil
		}
		return "", fmt.Errorf("the Shield vocabulary has only the constants 0 and 1 (constant %s)", z)
	},
	lit: func(n, d *big.Int) (string, error) {
		return "", fmt.Errorf("the Shield vocabulary has no decimal literals (constant %s/%s)", n, d)
	},
}

// model.ShieldFormula value -> constructor of Shield.fkind (the same table as harness/cmd/corr/shield.go)
var shieldKinds = map[int64]string{0: "Shield.FInvalid", 1: "Shield.FAtk", 2: "Shield.FDef", 3: "Shield.FHp", 4: "Shield.FTgtHp", 5: "Shield.FTotalShield"}
var shieldKindNames = map[int64]string{0: "ShieldFormula_INVALID_SHIELD_FORMULA", 1: "ShieldFormula_SHIELD_BY_SHIELDER_ATK",
	2: "ShieldFormula_SHIELD_BY_SHIELDER_DEF", 3: "ShieldFormula_SHIELD_BY_SHIELDER_MAX_HP", 4: "ShieldFormula_SHIELD_BY_TARGET_MAX_HP",
	5: "ShieldFormula_SHIELD_BY_SHIELDER_TOTAL_SHIELD"}

func shFormulaKey(t *tr, m val, z *big.Int, at ast.Node) (string, error) {
	if !z.IsInt64() || shieldKinds[z.Int64()] == "" {
		return "", t.fail(at, "shield formula key %s has no constructor in Model/Shield.v", z)
	}
	// the constructor table is only valid while the enum has the values it was written for
	c := t.g.constOf("pkg/model", shieldKindNames[z.Int64()])
	if cz := bigOf(constantToInt(c)); cz == nil || cz.Cmp(z) != 0 {
		return "", t.fail(at, "model.%s no longer has the value %s the constructor table was written for", shieldKindNames[z.Int64()], z)
	}
	return shieldKinds[z.Int64()], nil
}

func shAccess(t *tr, key string, recv *val, args []val, at ast.Node) (val, bool, error) {
	stat := map[string]string{"method:info.Stats.ATK": "Shield.s_atk", "method:info.Stats.DEF": "Shield.s_def", "method:info.Stats.HP": "Shield.s_hp"}
	if f, ok := stat[key]; ok {
		// the model's attribute getter serves ATK_BASE / DEF_BASE / HP_BASE only: ATK() = statCalc(base, 0, 0 + 0)
		if err := wantObj(t, at, key, recv, "sstats"); err != nil {
			return val{}, false, err
		}
		return numV(app("Shield.statcalc O", app(f, recv.s))), true, nil
	}
	switch key {
	case "method:info.Stats.GetProperty":
		if err := wantObj(t, at, key, recv, "sstats"); err != nil {
			return val{}, false, err
		}
		if len(args) == 1 && args[0].s == "prop_ShieldBoost" {
			return numV(app("Shield.s_boost", recv.s)), true, nil
		}
		if len(args) == 1 && args[0].s == "prop_ShieldTaken" {
			return numV(app("Shield.s_taken", recv.s)), true, nil
		}
		return val{}, false, t.fail(at, "GetProperty of a property the shield model's stats record does not carry: %s", t.text(at))
	case "var:shield.shieldFormulaOrder":
		if !t.g.names["shieldFormulaOrder"] {
			return val{}, false, t.fail(at, "shieldFormulaOrder has not been generated")
		}
		return objV("shieldFormulaOrder", "ordertable"), true, nil
	case "lookup:formula":
		return val{s: app("Shield.flookup", recv.s, args[0].s), k: kOptNum}, true, nil
	case "func:math.Dim":
		if len(args) != 2 || args[0].k != kNum || args[1].k != kNum {
			return val{}, false, t.fail(at, "math.Dim with unexpected operands")
		}
		return numV(app("Shield.dim O", args[0].s, args[1].s)), true, nil
	}
	return val{}, false, nil
}

func genShield(root string) *gen {
	w := &fworld{name: "Shield", d: shDialect, access: shAccess, formulaKey: shFormulaKey,
		requires: "From SR Require Model.Shield.\n"}
	g := newGen(root, w, "./pkg/engine/shield", "./pkg/engine/prop", "./pkg/model")
	g.prelude("FormulasShield")
	g.enum("pkg/model", "ShieldFormula", "", "")
	g.intConst("pkg/engine/prop", "ShieldBoost", "prop_ShieldBoost")
	g.intConst("pkg/engine/prop", "ShieldTaken", "prop_ShieldTaken")
	g.emit("\n")

	// the order table
	p, cl := g.varLit("pkg/engine/shield", "shieldFormulaOrder")
	g.emit("(* pkg/engine/shield: var shieldFormulaOrder (model.ShieldFormula values as constructors of Shield.fkind) *)\n" +
		"Definition shieldFormulaOrder : list Shield.fkind := [")
	for i, e := range cl.Elts {
		tv := p.TypesInfo.Types[e]
		z := (*big.Int)(nil)
		if tv.Value != nil {
			z = bigOf(constantToIntV(tv.Value))
		}
		if z == nil || !z.IsInt64() || shieldKinds[z.Int64()] == "" {
			die("Formulas: %s: row of shieldFormulaOrder is not a known model.ShieldFormula constant", g.src.pos(e))
		}
		if c := g.constOf("pkg/model", shieldKindNames[z.Int64()]); bigOf(constantToInt(c)).Cmp(z) != 0 {
			die("Formulas: model.%s changed its value", shieldKindNames[z.Int64()])
		}
		if i > 0 {
			g.emit("; ")
		}
		g.emit(shieldKinds[z.Int64()])
	}
	g.emit("].\n\n")
	g.names["shieldFormulaOrder"] = true

	g.fn(fnSpec{pkg: "pkg/engine/shield", fn: "(*Manager).AddShield", coq: "addShield_hp", mode: mExtract,
		params: "(f : list (Shield.fkind * T)) (flat : T) (src tgt : Shield.stats T) (maxsh : T)", ret: "T * T",
		bind:   map[string]val{"source": objV("src", "sstats"), "target": objV("tgt", "sstats"), "maxShield": numV("maxsh")},
		pseudo: map[string]val{"shield.BaseShield": objV("f", "formula"), "shield.ShieldValue": numV("flat")},
		vars:   []string{"baseHP", "shieldHP"}, count: 4,
		allow: []string{"source := mgr.attr.Stats(shield.Source)", "maxShield := mgr.MaxShield(shield.Source)",
			"target := mgr.attr.Stats(shield.Target)"},
		res: "({baseHP}, {shieldHP})",
		doc: "src = stats of shield.Source, maxsh = MaxShield(shield.Source), tgt = stats of shield.Target (the whitelisted assignments)"})
	g.fn(fnSpec{pkg: "pkg/engine/shield", fn: "(*Manager).AbsorbDamage", coq: "absorb_init", mode: mExtract,
		params: "(damage : T)", ret: "T * T", bind: map[string]val{"damage": numV("damage")},
		vars: []string{"damageOut", "newMaxShieldHP"}, count: 2, shallow: true,
		allow: []string{"damageOut = remaining", "newMaxShieldHP = shield.hp"}, res: "({damageOut}, {newMaxShieldHP})"})
	g.fn(fnSpec{pkg: "pkg/engine/shield", fn: "(*Manager).AbsorbDamage", coq: "absorb_step", mode: mExtract, block: "range:mgr.targets[target]",
		params: "(damage hp : T) (k : Z) (dOut newMax : T) (maxId : option Z)", ret: "T * T * T * option Z",
		bind:   map[string]val{"damage": numV("damage"), "damageOut": numV("dOut"), "newMaxShieldHP": numV("newMax"), "maxShieldID": intV("maxId")},
		pseudo: map[string]val{"shield.hp": numV("hp"), "shield.name": intV("(Some k)")},
		vars:   []string{"remaining", "shield.hp", "damageOut", "newMaxShieldHP", "maxShieldID"}, count: 4,
		allow: []string{"damageOut := damage", "newMaxShieldHP := 0.0"},
		res:   "({shield.hp}, {damageOut}, {newMaxShieldHP}, {maxShieldID})",
		doc:   "one iteration of the loop over the target's shields; the id of the largest shield is an option (None = the empty key)"})
	return g
}

// =========================================================================================
// FormulasTurn: turn manager over Base/NumOps.v;  FormulasQueue: queue order, insert priorities
// =========================================================================================

const bnNum = "NumOps.num N"

var bnDialect = &dialect{
	name: "Base.NumOps", inst: "N", binder: "(N : NumOps.NumOps)", numT: bnNum,
	add: "NumOps.nadd N", sub: "NumOps.nsub N", mul: "NumOps.nmul N", div: "NumOps.ndiv N",
	ltb: "NumOps.nltb N", leb: "NumOps.nleb N", eqb: "NumOps.neqb N", toZ: "NumOps.ntoZ N", ofZf: "NumOps.nofZ N",
	ofZ: func(z *big.Int) (string, error) { return app("NumOps.nofZ N", zlit(z)), nil },
	lit: func(n, d *big.Int) (string, error) {
		return app("NumOps.ndiv N", app("NumOps.nofZ N", zlit(n)), app("NumOps.nofZ N", zlit(d))), nil
	},
}

func bnAccess(t *tr, key string, recv *val, args []val, at ast.Node) (val, bool, error) {
	switch key {
	case "field:turn.turnOrderHandler.turnOrder":
		if err := wantObj(t, at, key, recv, "handler"); err != nil {
			return val{}, false, err
		}
		return objV(recv.s, "order"), true, nil
	case "index:order": // a.turnOrder[i] with i standing for the unit at that position
		if len(args) != 1 || args[0].k != kObj || args[0].obj != "uidx" {
			return val{}, false, t.fail(at, "turn order indexed by something that is not a named position")
		}
		return objV(args[0].s, "unit"), true, nil
	case "field:turn.target.gauge":
		if err := wantObj(t, at, key, recv, "unit"); err != nil {
			return val{}, false, err
		}
		return intV(app("Turn.u_gauge", recv.s)), true, nil
	case "field:turn.target.id":
		if err := wantObj(t, at, key, recv, "unit"); err != nil {
			return val{}, false, err
		}
		return intV(app("Turn.u_id", recv.s)), true, nil
	case "field:turn.turnOrderHandler.attr":
		if err := wantObj(t, at, key, recv, "handler"); err != nil {
			return val{}, false, err
		}
		return objV(recv.s, "attr"), true, nil
	case "method:attribute.Getter.Stats": // the stats of an id at the time of the call: the model's speed table
		if err := wantObj(t, at, key, recv, "attr"); err != nil {
			return val{}, false, err
		}
		if len(args) != 1 || args[0].k != kInt {
			return val{}, false, t.fail(at, "Stats of something that is not an id")
		}
		return val{s: recv.s, k: kObj, obj: "tstats", aux: args[0].s}, true, nil
	case "method:info.Stats.SPD":
		if err := wantObj(t, at, key, recv, "tstats"); err != nil {
			return val{}, false, err
		}
		return numV(app("Turn.spd N", recv.s, recv.aux)), true, nil
	case "index:heap":
		if len(args) != 1 || args[0].k != kObj || args[0].obj != "tidx" {
			return val{}, false, t.fail(at, "heap indexed by something that is not a named position")
		}
		return objV(args[0].s, "task"), true, nil
	case "field:queue.Task.Priority":
		if err := wantObj(t, at, key, recv, "task"); err != nil {
			return val{}, false, err
		}
		return intV(app("Queue.t_prio", recv.s)), true, nil
	case "field:queue.Task.id":
		if err := wantObj(t, at, key, recv, "task"); err != nil {
			return val{}, false, err
		}
		return intV(app("Queue.t_id", recv.s)), true, nil
	}
	return val{}, false, nil
}

func genTurn(root string) *gen {
	w := &fworld{name: "Base.NumOps", d: bnDialect, access: bnAccess,
		formulaKey: func(t *tr, m val, z *big.Int, at ast.Node) (string, error) { return zlit(z), nil },
		requires:   "From SR Require Base.NumOps Model.Turn.\n"}
	g := newGen(root, w, "./pkg/engine/turn")
	g.prelude("FormulasTurn")
	g.intConst("pkg/engine/turn", "BaseGauge", "BaseGauge")
	g.emit("\n")

	const tn = "pkg/engine/turn"
	const sP = "(s : Turn.tstate N)"
	g.fn(fnSpec{pkg: tn, fn: "(*turnOrderHandler).av", coq: "turn_av", key: "method:turn.turnOrderHandler.av", rk: kNum,
		params: sP + " (u : Turn.unit)", ret: bnNum, bind: map[string]val{"a": objV("s", "handler"), "i": objV("u", "uidx")},
		doc: "u = the unit at position i of the order; Stats(id).SPD() = the model's speed table"})
	g.fn(fnSpec{pkg: tn, fn: "(*turnOrderHandler).Less", coq: "turn_less", rk: kBool,
		params: sP + " (x y : Turn.unit)", ret: "bool",
		bind: map[string]val{"a": objV("s", "handler"), "i": objV("x", "uidx"), "j": objV("y", "uidx")}})
	g.fn(fnSpec{pkg: tn, fn: "(*manager).av", coq: "manager_av", rk: kNum,
		params: sP + " (u : Turn.unit)", ret: bnNum, bind: map[string]val{"mgr": objV("s", "mgr"), "id": intV("(Turn.u_id u)")},
		pseudo: map[string]val{"mgr.target(id)": objV("u", "unit"), "mgr.attr": objV("s", "attr")},
		doc:    "u = mgr.target(id), the unit with this id"})
	attrP := map[string]val{"mgr.attr": objV("s", "attr")}
	g.fn(fnSpec{pkg: tn, fn: "(*manager).StartTurn", coq: "startTurn_gauge", mode: mExtract, block: "range:mgr.orderHandler.turnOrder",
		params: sP + " (av : " + bnNum + ") (u : Turn.unit)", ret: "Z",
		bind:   map[string]val{"t": objV("u", "unit"), "av": numV("av")},
		pseudo: map[string]val{"mgr.attr": objV("s", "attr"), "t.gauge": intV("(Turn.u_gauge u)")},
		vars:   []string{"t.gauge"}, count: 1, allow: []string{"av := mgr.av(mgr.activeTarget)"}, res: "{t.gauge}"})
	g.fn(fnSpec{pkg: tn, fn: "(*manager).StartTurn", coq: "startTurn_totalAV", mode: mExtract,
		params: "(total av : " + bnNum + ")", ret: bnNum, bind: map[string]val{"av": numV("av")},
		pseudo: map[string]val{"mgr.totalAV": numV("total")},
		vars:   []string{"mgr.totalAV"}, count: 1, allow: []string{"av := mgr.av(mgr.activeTarget)"}, res: "{mgr.totalAV}"})
	g.fn(fnSpec{pkg: tn, fn: "(*manager).StartTurn", mode: mOccur, lhs: "mgr.gaugeCost", names: []string{"startTurn_cost"}, ret: bnNum})
	g.fn(fnSpec{pkg: tn, fn: "(*manager).StartTurn", mode: mOccur, lhs: "mgr.orderHandler.turnOrder[0].gauge",
		names: []string{"startTurn_actor_gauge"}, noInst: true, ret: "Z"})
	g.fn(fnSpec{pkg: tn, fn: "(*manager).ResetTurn", coq: "resetTurn_gauge", mode: mExtract,
		block:  "if:idx, err := mgr.orderHandler.FindTargetIndex(mgr.activeTarget); err == nil",
		params: "(cost : " + bnNum + ")", ret: "Z", pseudo: map[string]val{"mgr.gaugeCost": numV("cost")},
		vars: []string{"t.gauge"}, count: 2, res: "{t.gauge}"})
	g.fn(fnSpec{pkg: tn, fn: "(*manager).SetGauge", coq: "setGauge_gauge", mode: mExtract,
		params: "(amt : " + bnNum + ")", ret: "Z", pseudo: map[string]val{"data.Amount": numV("amt")},
		vars: []string{"newGauge"}, count: 2, res: "{newGauge}"})
	g.fn(fnSpec{pkg: tn, fn: "(*manager).ModifyGaugeNormalized", coq: "modifyGaugeNormalized_amount", mode: mExtract,
		params: "(g : Z) (amt : " + bnNum + ")", ret: bnNum, pseudo: map[string]val{"data.Amount": numV("amt"), "t.gauge": intV("g")},
		vars: []string{"data.Amount"}, count: 1, res: "{data.Amount}"})
	g.fn(fnSpec{pkg: tn, fn: "(*manager).ModifyGaugeAV", coq: "modifyGaugeAV_amount", mode: mExtract,
		params: sP + " (id g : Z) (amt : " + bnNum + ")", ret: bnNum,
		pseudo: map[string]val{"mgr.attr": attrP["mgr.attr"], "data.Target": intV("id"), "data.Amount": numV("amt"), "t.gauge": intV("g")},
		vars:   []string{"added", "data.Amount"}, count: 2, res: "{data.Amount}"})
	g.fn(fnSpec{pkg: tn, fn: "(*manager).ModifyCurrentGaugeCost", coq: "modifyCurrentGaugeCost_amount", mode: mExtract,
		params: "(cost amt : " + bnNum + ")", ret: bnNum, pseudo: map[string]val{"mgr.gaugeCost": numV("cost"), "data.Amount": numV("amt")},
		vars: []string{"data.Amount"}, count: 1, res: "{data.Amount}"})
	return g
}

func genQueue(root string) *gen {
	w := &fworld{name: "Base.NumOps", d: bnDialect, access: bnAccess,
		formulaKey: func(t *tr, m val, z *big.Int, at ast.Node) (string, error) { return zlit(z), nil },
		requires:   "From SR Require Model.Queue.\n"}
	g := newGen(root, w, "./pkg/engine/queue", "./pkg/engine/info", "./pkg/model")
	g.prelude("FormulasQueue")
	g.enum("pkg/engine/info", "InsertPriority", "InsertPriority_", "")
	g.intConst("pkg/model", "BehaviorFlag_STAT_CTRL", "BehaviorFlag_STAT_CTRL")
	g.intConst("pkg/model", "BehaviorFlag_DISABLE_ACTION", "BehaviorFlag_DISABLE_ACTION")
	g.emit("\n")
	g.fn(fnSpec{pkg: "pkg/engine/queue", fn: "minHeap.Less", coq: "queue_less", rk: kBool, noInst: true,
		params: "(x y : Queue.task)", ret: "bool",
		bind: map[string]val{"h": objV("h", "heap"), "i": objV("x", "tidx"), "j": objV("y", "tidx")}})
	return g
}
