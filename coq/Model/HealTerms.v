(* Case-file names of the "heal" component at the binary64 instance (see CombatTerms.v). *)
From SR Require Import Model.CombatCore Model.Heal.
From SR Require Export Model.CombatTerms.

Notation HHeal := (@HHeal FloatNum).
Notation HModHP := (@HModHP FloatNum).
