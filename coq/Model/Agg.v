(* Model of the statistics aggregation path
     pkg/simulation/result.go          Aggregators.Add / Flush
     pkg/statistics/agg/overview       buffer.Add / buffer.Flush
     pkg/statistics/agg/util.go        ToDescriptiveStats, ToOverviewStats, LinearHist
   and of the go-moremath functions they call (transcribed, third-party code):
     stats.StreamStats.Add/Mean/Variance/StdDev, stats.Sample.Sort/Bounds/Mean/StdDev/Quantile.

   The arithmetic is written once over a record of numeric operations [NumOps]; it is
   instantiated here at binary64 ([fops], executed and compared bit for bit with the Go
   output) and in Proofs/AggProofs.v at the real numbers (algebraic identities).

   The code modelled is the REPAIRED code (two `fix:` commits, see Props/C19.v):
     - ToOverviewStats takes the single-bin path for an empty sample,
     - ToDescriptiveStats copies min/max instead of pointing into the live StreamStats.
   Go panics and undefined float->int conversions are explicit outcomes ([RPanic],
   [RConvUndefined]).  No proofs here. *)
From Coq Require Import List ZArith Bool Floats Uint63.
From SR Require Import Base.CaseLib.
Import ListNotations.
Open Scope Z_scope.

Record NumOps (T : Type) := mkOps {
  n_zero : T;
  n_nan : T;                       (* math.NaN() *)
  n_add : T -> T -> T;
  n_sub : T -> T -> T;
  n_mul : T -> T -> T;
  n_div : T -> T -> T;
  n_sqrt : T -> T;                 (* math.Sqrt *)
  n_lt : T -> T -> bool;           (* x < y *)
  n_eq : T -> T -> bool;           (* x == y *)
  n_isnan : T -> bool;             (* math.IsNaN *)
  n_ofZ : Z -> T;                  (* float64(k), k an int / uint value *)
  n_trunc : T -> option Z;         (* int(x); None = the conversion is undefined in Go *)
  n_ceil : T -> T;                 (* math.Ceil *)
  n_cbrt : Z -> option T           (* math.Pow(float64(n), 1.0/3.0): supplied, not modelled *)
}.

Inductive res (A : Type) :=
| ROk (a : A)
| RConvUndefined        (* a float64 -> int conversion of NaN / inf / out-of-range value *)
| RPanic                (* makeslice: len out of range, or index out of range *)
| RNoPow.               (* the case did not supply math.Pow for this sample size *)
Arguments ROk {A} a.
Arguments RConvUndefined {A}.
Arguments RPanic {A}.
Arguments RNoPow {A}.

Definition bind {A B} (r : res A) (f : A -> res B) : res B :=
  match r with
  | ROk a => f a
  | RConvUndefined => RConvUndefined
  | RPanic => RPanic
  | RNoPow => RNoPow
  end.

Definition conv {A} (o : option Z) (f : Z -> res A) : res A :=
  match o with Some z => f z | None => RConvUndefined end.

Definition zlen {A} (l : list A) : Z := Z.of_nat (length l).

Section Agg.
Context {T : Type} (NO : NumOps T).

Let zero := n_zero T NO.
Let nanv := n_nan T NO.
Let add := n_add T NO.
Let sub := n_sub T NO.
Let mul := n_mul T NO.
Let div := n_div T NO.
Let lt := n_lt T NO.
Let ofZ := n_ofZ T NO.

(* ------------------------------------------------------------------------------------ *)
(* go-moremath stats.StreamStats (Total, meanOfSquares are not reported and left out)    *)
Record stream := mkS { s_count : Z; s_min : T; s_max : T; s_mean : T; s_m2 : T }.

Definition s_init : stream := mkS 0 zero zero zero zero.

Definition s_add (s : stream) (x : T) : stream :=
  let mn := if s_count s =? 0 then x else if lt x (s_min s) then x else s_min s in
  let mx := if s_count s =? 0 then x else if lt (s_max s) x then x else s_max s in
  let c := s_count s + 1 in
  let delta := sub x (s_mean s) in
  let mean' := add (s_mean s) (div delta (ofZ c)) in
  mkS c mn mx mean' (add (s_m2 s) (mul delta (sub x mean'))).

Record desc := mkD { d_min : T; d_max : T; d_mean : T; d_sd : T }.

(* ToDescriptiveStats.  s.Count is a uint: Count-1 wraps to 2^64-1 when nothing was added. *)
Definition to_desc (s : stream) : desc :=
  let var := div (s_m2 s) (ofZ ((s_count s - 1) mod 2 ^ 64)) in
  let sd := n_sqrt T NO var in
  mkD (s_min s) (s_max s) (s_mean s) (if n_isnan T NO sd then zero else sd).

(* ------------------------------------------------------------------------------------ *)
(* go-moremath stats.Sample                                                             *)

(* sort.Float64s: x < y || (isNaN(x) && !isNaN(y)).  The sort is not stable, but a list of
   values on which the order is total and antisymmetric has one sorted arrangement. *)
Definition go_less (a b : T) : bool := lt a b || (n_isnan T NO a && negb (n_isnan T NO b)).

Fixpoint insert (x : T) (l : list T) : list T :=
  match l with
  | [] => [x]
  | h :: t => if go_less x h then x :: h :: t else h :: insert x t
  end.
Definition isort (l : list T) : list T := fold_right insert [] l.

(* Mean(xs): m += (x - m) / float64(i+1) *)
Definition mean_step (a : T * Z) (x : T) : T * Z :=
  let '(m, i) := a in (add m (div (sub x m) (ofZ (i + 1))), i + 1).
Definition mean_go (xs : list T) : T :=
  match xs with [] => nanv | _ => fst (fold_left mean_step xs (zero, 0)) end.

(* Variance(xs): Welford *)
Definition var_step (a : T * T * Z) (x : T) : T * T * Z :=
  let '(mean, m2, n) := a in
  let delta := sub x mean in
  let mean' := add mean (div delta (ofZ (n + 1))) in
  (mean', add m2 (mul delta (sub x mean')), n + 1).
Definition variance_go (xs : list T) : T :=
  match xs with
  | [] => nanv
  | [_] => zero
  | _ => let '(_, m2, _) := fold_left var_step xs (zero, zero, 0) in div m2 (ofZ (zlen xs - 1))
  end.
Definition stddev_go (xs : list T) : T := n_sqrt T NO (variance_go xs).

Definition nth_z (xs : list T) (k : Z) : T := nth (Z.to_nat k) xs nanv.

(* Sample.Bounds on a sorted, unweighted sample *)
Definition bounds_sorted (xs : list T) : T * T :=
  match xs with [] => (nanv, nanv) | _ => (nth_z xs 0, nth_z xs (zlen xs - 1)) end.

(* Sample.Quantile(q), 0 < q < 1, sorted unweighted sample: Hyndman-Fan R8.
   math.Modf(n) for n > 0 is (trunc n, n - trunc n). *)
Definition quantile (xs : list T) (q : T) : res T :=
  match xs with
  | [] => ROk nanv
  | _ =>
      let N := ofZ (zlen xs) in
      let third := div (ofZ 1) (ofZ 3) in
      let n := add third (mul q (add N third)) in
      conv (n_trunc T NO n) (fun k =>
        let frac := sub n (ofZ k) in
        if k <=? 0 then ROk (nth_z xs 0)
        else if zlen xs <=? k then ROk (nth_z xs (zlen xs - 1))
        else ROk (add (nth_z xs (k - 1)) (mul frac (sub (nth_z xs k) (nth_z xs (k - 1))))))
  end.

(* ------------------------------------------------------------------------------------ *)
(* agg.LinearHist                                                                       *)
Record lhist := mkH { h_low : Z; h_bins : list Z; h_high : Z }.

Fixpoint incr (bins : list Z) (k : nat) : list Z :=
  match bins, k with
  | [], _ => []
  | b :: r, O => (b + 1) :: r
  | b :: r, S k' => b :: incr r k'
  end.

Definition h_add (h : lhist) (bin : Z) : lhist :=
  if bin <? 0 then mkH (h_low h + 1) (h_bins h) (h_high h)
  else if zlen (h_bins h) <=? bin then mkH (h_low h) (h_bins h) (h_high h + 1)
  else mkH (h_low h) (incr (h_bins h) (Z.to_nat bin)) (h_high h).

(* bins[0] += low; bins[len-1] += high *)
Definition add_first (v : Z) (bins : list Z) : list Z :=
  match bins with [] => [] | b :: r => (b + v) :: r end.
Fixpoint add_last (v : Z) (bins : list Z) : list Z :=
  match bins with [] => [] | [b] => [b + v] | b :: r => b :: add_last v r end.
Definition h_counts (h : lhist) : list Z := add_last (h_high h) (add_first (h_low h) (h_bins h)).

(* h.bin(x) for every x, in order; stops at the first undefined conversion *)
Fixpoint bins_of (delta mn : T) (xs : list T) : res (list Z) :=
  match xs with
  | [] => ROk []
  | x :: r => conv (n_trunc T NO (mul delta (sub x mn))) (fun b =>
                bind (bins_of delta mn r) (fun bs => ROk (b :: bs)))
  end.

(* make([]uint32, nbins) panics for nbins < 0 (and for absurd sizes, never reached by a
   defined conversion of a quotient the guards allow: treated as a panic from 2^31 on) *)
Definition max_bins : Z := 2 ^ 31.

Definition linear_hist (mn mx : T) (nbins : Z) (xs : list T) : res (list Z) :=
  let delta := div (ofZ nbins) (sub mx mn) in
  if (nbins <? 0) || (max_bins <=? nbins) then RPanic
  else bind (bins_of delta mn xs) (fun bs =>
         let h := fold_left h_add bs (mkH 0 (repeat 0 (Z.to_nat nbins)) 0) in
         if nbins =? 0 then RPanic          (* bins[0] += low: index out of range *)
         else ROk (h_counts h)).

(* ------------------------------------------------------------------------------------ *)
(* agg.ToOverviewStats                                                                  *)
Record ov := mkOv { o_min : T; o_max : T; o_mean : T; o_sd : T;
                    o_q1 : T; o_q2 : T; o_q3 : T; o_hist : list Z }.

Definition q14 : T := div (ofZ 1) (ofZ 4).
Definition q24 : T := div (ofZ 1) (ofZ 2).
Definition q34 : T := div (ofZ 3) (ofZ 4).
Definition c349 : T := div (ofZ 349) (ofZ 100).   (* the constant 3.49, correctly rounded *)

(* on the sorted sample *)
Definition overview_sorted (xs : list T) : res ov :=
  let '(mn, mx) := bounds_sorted xs in
  let std0 := stddev_go xs in
  let std := if n_isnan T NO std0 then zero else std0 in
  bind (quantile xs q14) (fun q1 =>
  bind (quantile xs q24) (fun q2 =>
  bind (quantile xs q34) (fun q3 =>
  match n_cbrt T NO (zlen xs) with
  | None => RNoPow
  | Some p =>
      let h := div (mul c349 std) p in
      if (zlen xs =? 0) || n_eq T NO h zero || n_eq T NO mx mn then
        ROk (mkOv mn mx (mean_go xs) std q1 q2 q3 [zlen xs])
      else
        conv (n_trunc T NO (n_ceil T NO (div (sub mx mn) h))) (fun nbins =>
          bind (linear_hist mn mx nbins xs) (fun hist =>
            ROk (mkOv mn mx (mean_go xs) std q1 q2 q3 hist)))
  end))).

Definition overview (xs : list T) : res ov := overview_sorted (isort xs).

(* ------------------------------------------------------------------------------------ *)
(* overview.buffer                                                                      *)
Record result := mkRes { i_dealt : T; i_taken : T; i_av : T; i_cd : list T; i_ct : list T }.

Record st := mkSt { a_iters : Z; a_dpc : list T;
                    a_dealt : stream; a_taken : stream; a_av : stream;
                    a_cd : list (list T); a_ct : list (list T) }.

(* NewAgg: CycleLimit samples are pre-allocated per series *)
Definition a_init (cycle_limit : nat) : st :=
  mkSt 0 [] s_init s_init s_init (repeat [] cycle_limit) (repeat [] cycle_limit).

(* for i, v := range series { grow; samples[i] = append(samples[i], v-last); last = v } *)
Fixpoint add_series (ss : list (list T)) (vs : list T) (last : T) : list (list T) :=
  match vs with
  | [] => ss
  | v :: vs' =>
      match ss with
      | [] => [sub v last] :: add_series [] vs' v
      | s :: ss' => (s ++ [sub v last]) :: add_series ss' vs' v
      end
  end.

Definition dpc_of (r : result) : T := div (mul (i_dealt r) (ofZ 100)) (i_av r).

Definition a_add (a : st) (r : result) : st :=
  mkSt (a_iters a + 1)
       (a_dpc a ++ [dpc_of r])
       (s_add (a_dealt a) (i_dealt r)) (s_add (a_taken a) (i_taken r)) (s_add (a_av a) (i_av r))
       (add_series (a_cd a) (i_cd r) zero) (add_series (a_ct a) (i_ct r) zero).

Record report := mkRep { r_iters : Z; r_dealt : desc; r_taken : desc; r_dpc : ov; r_av : desc;
                         r_cd : list ov; r_ct : list ov }.

Fixpoint overviews (ss : list (list T)) : res (list ov) :=
  match ss with
  | [] => ROk []
  | s :: r => bind (overview s) (fun o => bind (overviews r) (fun os => ROk (o :: os)))
  end.

(* buffer.Flush into a fresh model.Statistics (Iterations is a uint32) *)
Definition a_report (a : st) : res report :=
  bind (overview (a_dpc a)) (fun dpc =>
  bind (overviews (a_cd a)) (fun cd =>
  bind (overviews (a_ct a)) (fun ct =>
  ROk (mkRep (a_iters a mod 2 ^ 32) (to_desc (a_dealt a)) (to_desc (a_taken a)) dpc
             (to_desc (a_av a)) cd ct)))).

(* Flush sorts every sample in place (input.Sort() on the buffer's own *Sample) *)
Definition a_sorted (a : st) : st :=
  mkSt (a_iters a) (isort (a_dpc a)) (a_dealt a) (a_taken a) (a_av a)
       (map isort (a_cd a)) (map isort (a_ct a)).

Inductive op := OAdd (r : result) | OFlush.

(* the reports of the flushes, in order; a flush that does not return ends the run *)
Fixpoint run (a : st) (ops : list op) : list (res report) :=
  match ops with
  | [] => []
  | OAdd r :: rest => run (a_add a r) rest
  | OFlush :: rest =>
      match a_report a with
      | ROk rep => ROk rep :: run (a_sorted a) rest
      | bad => [bad]
      end
  end.

End Agg.

Arguments mkD {T}.
Arguments mkOv {T}.
Arguments mkRes {T}.
Arguments mkRep {T}.
Arguments OAdd {T}.
Arguments OFlush {T}.

(* ---------------------------------------------------------------------------------------- *)
(* binary64 instance                                                                        *)

(* float64(k) for 0 <= |k| < 2^64, correctly rounded (of_uint63 is, below 2^63) *)
Definition fofN (k : Z) : float :=
  if k <? 2 ^ 63 then of_uint63 (Uint63.of_Z k)
  else
    let q := k / 2048 in let r := k mod 2048 in
    let q' := if (1024 <? r) || ((r =? 1024) && Z.odd q) then q + 1 else q in
    (of_uint63 (Uint63.of_Z q') * 2048)%float.
Definition fofZ (k : Z) : float := if k <? 0 then (- fofN (- k))%float else fofN k.

Definition ftrunc (x : float) : option Z := if f2i_defined x then Some (ftoZ x) else None.

Definition two52 : float := 4503599627370496%float.
Definition fceil (x : float) : float :=
  if PrimFloat.is_nan x || PrimFloat.is_infinity x then x
  else if (two52 <=? abs x)%float then x
  else
    let t := ftoZ x in
    let ft := fofZ t in
    if (ft <? x)%float then fofZ (t + 1)
    else if (t =? 0) && get_sign x then (-0)%float else ft.

Fixpoint lookup_pow (tab : list (Z * float)) (n : Z) : option float :=
  match tab with
  | [] => None
  | (k, v) :: r => if k =? n then Some v else lookup_pow r n
  end.

Definition fops (pows : list (Z * float)) : NumOps float :=
  mkOps float 0%float nan PrimFloat.add PrimFloat.sub PrimFloat.mul PrimFloat.div PrimFloat.sqrt
        PrimFloat.ltb PrimFloat.eqb PrimFloat.is_nan fofZ ftrunc fceil (lookup_pow pows).
