(* The drain of Model/Queue.v never runs out of fuel when given one unit more than the work
   that exists: every task taken is removed for good, and what an executing task queues was
   already counted inside its script. *)
From Coq Require Import List ZArith Bool Lia Arith.
From SR Require Import Model.Queue Proofs.QueueProofs.
Import ListNotations.
Local Open Scope nat_scope.

Fixpoint esize (e : eff) : nat :=
  match e with
  | EAbility _ _ _ sc => S ((fix ss (l : list eff) := match l with [] => 0 | x :: r => esize x + ss r end) sc)
  | EAction _ => 1
  | _ => 0
  end.
Fixpoint ssize (l : list eff) : nat := match l with [] => 0 | x :: r => esize x + ssize r end.
Lemma esize_ability : forall p s f sc, esize (EAbility p s f sc) = S (ssize sc).
Proof. reflexivity. Qed.

Definition tsize (t : task) : nat := S (match t_body t with BAbility sc => ssize sc | BAction _ => 0 end).
Fixpoint qsize (l : list task) : nat := match l with [] => 0 | t :: r => tsize t + qsize r end.
Fixpoint scsize (l : list (list eff)) : nat := match l with [] => 0 | sc :: r => ssize sc + scsize r end.
Fixpoint asize (a : list (Z * list (list eff))) : nat :=
  match a with [] => 0 | (_, scs) :: r => scsize scs + asize r end.

Definition mu (s : sim) : nat := qsize (q_pending (s_q s)) + asize (s_acts s).

Lemma qsize_app : forall a b, qsize (a ++ b) = qsize a + qsize b.
Proof. induction a as [|t r IH]; intros b; cbn [qsize app]; [reflexivity|]. rewrite IH. lia. Qed.

Lemma mu_apply_eff : forall s e, mu (apply_eff s e) = mu s + esize e.
Proof.
  intros s e. destruct e as [p src f sc|u|u l|u|u f on]; cbn [apply_eff].
  - unfold mu. cbn [with_q s_q s_acts q_insert q_pending]. rewrite qsize_app. cbn [qsize]. unfold tsize. cbn [t_body].
    rewrite esize_ability. lia.
  - unfold mu. cbn [with_q s_q s_acts q_insert q_pending]. rewrite qsize_app. cbn [qsize]. unfold tsize. cbn [t_body esize]. lia.
  - destruct (zget (s_life s) u) as [[]|]; cbn; unfold mu; cbn; lia.
  - destruct (zget (s_life s) u) as [[| | |]|]; cbn; unfold mu; cbn; lia.
  - destruct (zget (s_cls s) u); cbn; unfold mu; cbn; lia.
Qed.

Lemma mu_run_script : forall sc s, mu (run_script s sc) = mu s + ssize sc.
Proof.
  induction sc as [|e r IH]; intros s; [cbn; lia|]. unfold run_script in *. cbn [fold_left ssize].
  rewrite IH, mu_apply_eff. lia.
Qed.

Lemma asize_zset : forall a u sc rest, zget a u = Some (sc :: rest) ->
  asize (zset a u rest) + ssize sc = asize a.
Proof.
  induction a as [|[k v] r IH]; intros u sc rest H; cbn in *; [discriminate|].
  destruct (k =? u)%Z.
  - inversion H; subst. cbn. lia.
  - cbn. rewrite <- (IH u sc rest H). lia.
Qed.

Lemma qsize_remove : forall l m, In m l -> NoDup (ids l) ->
  qsize l = tsize m + qsize (remove_id (t_id m) l).
Proof.
  induction l as [|t r IH]; intros m Hin Hnd; [destruct Hin|].
  inversion Hnd as [|? ? Hx Hr]; subst. cbn [remove_id qsize].
  destruct (t_id t =? t_id m)%Z eqn:E.
  - apply Z.eqb_eq in E. destruct Hin as [->|Hin]; [reflexivity|].
    exfalso. apply Hx. rewrite E. unfold ids. now apply in_map.
  - destruct Hin as [->|Hin]; [rewrite Z.eqb_refl in E; discriminate|].
    cbn [qsize]. rewrite (IH m Hin Hr). lia.
Qed.

Lemma mu_execute : forall s t, mu (fst (execute s t)) + 1 <= mu s + tsize t.
Proof.
  intros s t. unfold execute, tsize. destruct (t_body t) as [sc|u].
  - cbn [fst]. change (mu (emit (run_script (emit s [TInsertStart (t_id t) (t_src t) (t_prio t); TExec (t_id t)]) sc)
                           [TInsertEnd (t_id t) (t_src t) (t_prio t)]))
      with (mu (run_script (emit s [TInsertStart (t_id t) (t_src t) (t_prio t); TExec (t_id t)]) sc)).
    rewrite mu_run_script. change (mu (emit s _)) with (mu s). lia.
  - destruct (lstate_eqb (life_of s u) LAlive); [|cbn; lia].
    unfold next_act. cbn [emit s_acts].
    destruct (zget (s_acts s) u) as [[|sc rest]|] eqn:E; cbn [fst].
    + change (mu (emit _ _)) with (mu s). cbn. lia.
    + change (mu (emit (run_script (with_acts (emit s [TActionStart u; TAct u]) (zset (s_acts s) u rest)) sc) [TActionEnd u]))
        with (mu (run_script (with_acts (emit s [TActionStart u; TAct u]) (zset (s_acts s) u rest)) sc)).
      rewrite mu_run_script. unfold mu at 1. cbn [with_acts emit s_q s_acts].
      pose proof (asize_zset _ _ _ _ E). unfold mu. lia.
    + change (mu (emit _ _)) with (mu s). cbn. lia.
Qed.

Lemma pop_min_pending : forall q t q', pop_min q = Some (t, q') ->
  q_pending q' = remove_id (t_id t) (q_pending q).
Proof.
  intros q t q' H. unfold pop_min in H. destruct (q_pending q) as [|x l]; [discriminate|].
  inversion H. reflexivity.
Qed.

Lemma mu_iter : forall s s', J s -> iter s = Some (s', false) -> mu s' < mu s.
Proof.
  intros s s' [Hq _] H. unfold iter in H.
  destruct (pop_min (s_q s)) as [[t q']|] eqn:E; [|discriminate].
  destruct (exit_reason s); [discriminate|].
  destruct (pop_min_spec _ _ _ Hq E) as [Hin _].
  assert (Hsz : mu s = tsize t + mu (with_q s q')).
  { unfold mu. cbn [with_q s_q s_acts]. rewrite (pop_min_pending _ _ _ E).
    rewrite (qsize_remove (q_pending (s_q s)) t Hin); [lia|apply Hq]. }
  assert (Ht : 1 <= tsize t) by (unfold tsize; lia).
  destruct (lstate_eqb (life_of (with_q s q') (t_src t)) LDead).
  { inversion H; subst. change (mu (record (with_q s q') _)) with (mu (with_q s q')). lia. }
  destruct (negb (on_field (with_q s q') (t_src t))).
  { inversion H; subst. change (mu (record (with_q s q') _)) with (mu (with_q s q')). lia. }
  destruct (has_flag (with_q s q') (t_src t) (t_flags t)).
  { inversion H; subst. change (mu (record (with_q s q') _)) with (mu (with_q s q')). lia. }
  pose proof (mu_execute (with_q s q') t) as He.
  destruct (execute (with_q s q') t) as [s1 f]. cbn [fst] in He.
  assert (Hdc : mu (death_check (record s1 (mkE t f))) = mu s1) by reflexivity.
  destruct (exit_reason (death_check (record s1 (mkE t f)))); inversion H; subst. lia.
Qed.

Theorem drain_has_enough_fuel : forall fuel s, J s -> mu s < fuel -> drain fuel s <> None.
Proof.
  induction fuel as [|n IH]; intros s HJ Hf; [lia|]. cbn [drain].
  destruct (iter s) as [[s1 [|]]|] eqn:E; try discriminate.
  apply IH.
  - eapply iter_J; eauto.
  - pose proof (mu_iter _ _ HJ E). lia.
Qed.
