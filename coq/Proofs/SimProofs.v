(* Proofs about the whole-simulation model: the lifecycle protocol (C03). *)
From Coq Require Import List ZArith Bool Floats Lia.
From SR Require Import Base.CaseLib Base.NumOps Model.Turn Model.Sim Model.SimProtocol.
Import ListNotations.
Open Scope Z_scope.

(* ------------------------------------------------------------------ *)
(* The automaton on concatenations; neutral and balanced segments       *)
(* ------------------------------------------------------------------ *)
Lemma arun_app q a b : arun q (a ++ b) = match arun q a with Some q' => arun q' b | None => None end.
Proof.
  revert q. induction a as [|e a IH]; intros q; cbn; [reflexivity|].
  destruct (astep q e); [apply IH|reflexivity].
Qed.

Definition live (q : astate) : Prop := is_done (ph q) = false.

(* a segment that any live automaton state accepts and that leaves the state unchanged *)
Definition nb (seg : list ev) : Prop := forall q, live q -> arun q seg = Some q.

Lemma nb_nil : nb [].
Proof. intros q _. reflexivity. Qed.

Lemma nb_app a b : nb a -> nb b -> nb (a ++ b).
Proof. intros Ha Hb q Hq. rewrite arun_app, (Ha q Hq). apply Hb. exact Hq. Qed.

Definition neutral (e : ev) : bool :=
  match e with
  | VHPChange _ _ _ | VLimbo _ _ | VTargetDeath _ _ | VSPChange _ _ | VEnergyChange _ _ _
  | VGaugeChange _ _ _ | VBreakExtend _ | VNextAction _ _ _ | VDefaultAction _ | VUltCheck _
  | VCall _ _ _ | VSample _ _ _ | VDeathSeen _ _ | VHPSeen _ _ => true
  | _ => false
  end.

Lemma neutral_step q e : neutral e = true -> live q -> astep q e = Some q.
Proof.
  intros Hn Hq. unfold astep. unfold live in Hq. rewrite Hq. destruct e; try discriminate; reflexivity.
Qed.

Lemma nb_neutral l : forallb neutral l = true -> nb l.
Proof.
  induction l as [|e l IH]; intros H; [apply nb_nil|].
  cbn in H. apply andb_prop in H. destruct H as [He Hl].
  intros q Hq. cbn. rewrite (neutral_step q e He Hq). apply IH; assumption.
Qed.

(* a hit bracket around a balanced segment is balanced *)
Lemma nb_hit a d t h seg : nb seg -> nb (VHitStart a d :: seg ++ [VHitEnd a d t h]).
Proof.
  intros Hs q Hq. cbn [arun]. unfold astep at 1. unfold live in Hq. rewrite Hq.
  set (q1 := mkA (ph q) (BHit a d :: stk q)).
  assert (L1 : live q1) by exact Hq.
  rewrite arun_app, (Hs q1 L1). cbn [arun]. unfold astep. cbn [ph q1]. rewrite Hq.
  unfold pop_if. cbn [stk q1]. cbn [bracket_eqb]. rewrite !Z.eqb_refl. cbn.
  destruct q; reflexivity.
Qed.

(* ------------------------------------------------------------------ *)
(* Frame: what the content-level helpers preserve                       *)
(* ------------------------------------------------------------------ *)
Definition tfl (s : sim) := (active (turn s), cost (turn s), atarget (turn s)).

(* [s'] extends [s] by a segment satisfying P, keeping the attack flag and the turn flags *)
Definition ext (P : list ev -> Prop) (s s' : sim) : Prop :=
  exists seg, trace s' = trace s ++ seg /\ P seg /\ in_attack s' = in_attack s /\ tfl s' = tfl s.

Lemma ext_refl (P : list ev -> Prop) s : P [] -> ext P s s.
Proof. intros HP. exists []. rewrite app_nil_r. auto. Qed.

Lemma ext_trans_nb s1 s2 s3 : ext nb s1 s2 -> ext nb s2 s3 -> ext nb s1 s3.
Proof.
  intros (a & Ta & Pa & Ia & Fa) (b & Tb & Pb & Ib & Fb).
  exists (a ++ b). rewrite Tb, Ta, app_assoc. repeat split; try congruence. apply nb_app; assumption.
Qed.

Lemma ext_emit_neutral s l : forallb neutral l = true -> ext nb s (emit s l).
Proof. intros H. exists l. cbn. repeat split. apply nb_neutral. exact H. Qed.

Ltac ext_same := (exists []; cbn; rewrite ?app_nil_r; repeat split; apply nb_nil).

Lemma ext_upd_unit s u : ext nb s (upd_unit s u).
Proof. ext_same. Qed.

Lemma ext_set_energy s id amt : ext nb s (set_energy s id amt).
Proof.
  unfold set_energy. destruct (get_unit (units s) id) as [u|]; [|apply ext_refl, nb_nil].
  match goal with |- context [PrimFloat.eqb ?a ?b] => destruct (PrimFloat.eqb a b) end; [apply ext_refl, nb_nil|].
  eexists [_]. cbn. repeat split. apply nb_neutral. reflexivity.
Qed.

Lemma ext_mod_energy_fixed s id amt : ext nb s (mod_energy_fixed s id amt).
Proof. unfold mod_energy_fixed. destruct (get_unit (units s) id); [apply ext_set_energy|apply ext_refl, nb_nil]. Qed.

Lemma ext_mod_sp s amt : ext nb s (mod_sp s amt).
Proof.
  unfold mod_sp. match goal with |- context [?a =? ?b] => destruct (a =? b) end; [apply ext_refl, nb_nil|].
  eexists [_]. cbn. repeat split. apply nb_neutral. reflexivity.
Qed.

Lemma ext_enqueue s p src ab k : ext nb s (enqueue s p src ab k).
Proof. ext_same. Qed.

Lemma ext_set_budget s b : ext nb s (set_budget s b).
Proof. ext_same. Qed.

Lemma ext_record_hit s d t : ext nb s (record_hit s d t).
Proof. unfold record_hit. destruct (get_unit (units s) d); [ext_same|apply ext_refl, nb_nil]. Qed.

Lemma ext_pop_slot s sl : ext nb s (snd (pop_slot s sl)).
Proof.
  unfold pop_slot. destruct (nth (slot_ix sl) (lslots s) []); [apply ext_refl, nb_nil|ext_same].
Qed.

(* turn-model operations used by content keep the turn flags *)
Lemma turn_modnorm_flags t id amt :
  let t' := fst (Turn.step F t (@OModNorm F id amt)) in
  (active t', cost t', atarget t') = (active t, cost t, atarget t).
Proof.
  cbn [Turn.step]. destruct (Turn.find (order t) id); [|reflexivity].
  unfold do_set_gauge. destruct (Turn.find (order t) id); [|reflexivity].
  destruct (negb _); [reflexivity|]. destruct (_ =? _); reflexivity.
Qed.

Lemma turn_remove_flags t id :
  let t' := fst (Turn.step F t (@ORemove F id)) in
  (active t', cost t', atarget t') = (active t, cost t, atarget t).
Proof. cbn [Turn.step]. destruct (Turn.find (order t) id); reflexivity. Qed.

Lemma gauge_events_neutral outs : forallb neutral (gauge_events outs) = true.
Proof.
  unfold gauge_events. induction outs as [|o outs IH]; [reflexivity|].
  cbn [flat_map]. rewrite forallb_app, IH, andb_true_r. destruct o; reflexivity.
Qed.

(* ------------------------------------------------------------------ *)
(* Scripts                                                              *)
(* ------------------------------------------------------------------ *)
Section Scripts.
  Variable cfg : config.

  Definition good_runner (R : runner) : Prop :=
    forall s self p sc s', R s self p sc = Some s' -> ext nb s s'.


  Lemma ext_hp_change R (GR : good_runner R) s u newr dmg src s' :
    hp_change cfg R s u newr dmg src = Some s' -> ext nb s s'.
  Proof.
    unfold hp_change. destruct (PrimFloat.eqb (uhp u) newr); [intros H; inversion H; subst; apply ext_refl, nb_nil|].
    set (s0 := emit (upd_unit s _) [VHPSeen (uid u) dmg]).
    assert (E0 : ext nb s s0).
    { exists [VHPSeen (uid u) dmg]. cbn. repeat split. apply nb_neutral. reflexivity. }
    destruct (pop_slot s0 LHP) as [sc s1] eqn:EP.
    assert (E1 : ext nb s s1).
    { eapply ext_trans_nb; [exact E0|]. replace s1 with (snd (pop_slot s0 LHP)) by (rewrite EP; reflexivity). apply ext_pop_slot. }
    match goal with |- match ?r with _ => _ end = _ -> _ => destruct r as [s2|] eqn:ER; [|discriminate] end.
    assert (E2 : ext nb s s2).
    { destruct sc as [i|]; [eapply ext_trans_nb; [exact E1|eapply GR; exact ER]|inversion ER; subst; exact E1]. }
    set (s3 := emit s2 [VHPChange (uid u) (uhp u) newr]).
    assert (E3 : ext nb s s3) by (eapply ext_trans_nb; [exact E2|apply ext_emit_neutral; reflexivity]).
    destruct (get_unit (units s3) (uid u)) as [u'|]; [|intros H; inversion H; subst; exact E3].
    destruct (ust u'); try (intros H; inversion H; subst; exact E3);
      (destruct (PrimFloat.ltb 0 newr); intros H; inversion H; subst;
       [eapply ext_trans_nb; [exact E3|apply ext_upd_unit]
       |eapply ext_trans_nb; [exact E3|]; eapply ext_trans_nb; [apply ext_upd_unit|apply ext_emit_neutral; reflexivity]]).
  Qed.

  Lemma ext_set_hp R (GR : good_runner R) s id amt s' : set_hp cfg R s id amt = Some s' -> ext nb s s'.
  Proof.
    unfold set_hp. destruct (get_unit (units s) id); [apply ext_hp_change; exact GR|].
    intros H; inversion H; subst. apply ext_refl, nb_nil.
  Qed.

  Lemma ext_damage_hp R (GR : good_runner R) s id src dmg s' : damage_hp cfg R s id src dmg = Some s' -> ext nb s s'.
  Proof.
    unfold damage_hp. destruct (get_unit (units s) id); [apply ext_hp_change; exact GR|].
    intros H; inversion H; subst. apply ext_refl, nb_nil.
  Qed.

  Lemma ext_heal_hp R (GR : good_runner R) s id src amt s' : heal_hp cfg R s id src amt = Some s' -> ext nb s s'.
  Proof.
    unfold heal_hp. destruct (get_unit (units s) id); [apply ext_hp_change; exact GR|].
    intros H; inversion H; subst. apply ext_refl, nb_nil.
  Qed.
  Lemma ext_do_heals R (GR : good_runner R) : forall ts s self amt s',
    do_heals cfg R s self amt ts = Some s' -> ext nb s s'.
  Proof.
    induction ts as [|t ts IH]; intros s self amt s' H; cbn [do_heals] in H.
    - inversion H; subst. apply ext_refl, nb_nil.
    - destruct (heal_hp cfg R s t self amt) as [s1|] eqn:E1; [|discriminate].
      eapply ext_trans_nb; [eapply ext_heal_hp; eassumption|]. eapply IH. exact H.
  Qed.

  Lemma ext_hit s s2 a d t h : ext nb (emit s [VHitStart a d]) s2 -> ext nb s (emit s2 [VHitEnd a d t h]).
  Proof.
    intros (seg & T & P & I & Fl). cbn in T, I, Fl.
    exists (VHitStart a d :: seg ++ [VHitEnd a d t h]). cbn [trace emit]. rewrite T.
    split; [rewrite <- !app_assoc; reflexivity|].
    split; [apply nb_hit; exact P|]. cbn. split; assumption.
  Qed.

  Lemma do_hits_nb R (GR : good_runner R) : forall ts s self dmg s',
    do_hits cfg R s self dmg ts = Some s' -> ext nb s s'.
  Proof.
    induction ts as [|d ts IH]; intros s self dmg s' H; cbn [do_hits] in H.
    - inversion H; subst. apply ext_refl, nb_nil.
    - set (s2 := emit s [VHitStart self d]) in *.
      destruct (damage_hp cfg R s2 d self dmg) as [s3|] eqn:ED; [|discriminate].
      set (s4 := record_hit s3 d dmg) in *.
      destruct (pop_slot s4 LHitEnd) as [sc s5] eqn:EP.
      assert (E5 : ext nb s2 s5).
      { eapply ext_trans_nb; [eapply ext_damage_hp; eassumption|]. eapply ext_trans_nb; [apply ext_record_hit|].
        replace s5 with (snd (pop_slot s4 LHitEnd)) by (rewrite EP; reflexivity). apply ext_pop_slot. }
      match type of H with match ?r with _ => _ end = _ => destruct r as [s6|] eqn:ER; [|discriminate] end.
      assert (E6 : ext nb s2 s6).
      { destruct sc as [i|].
        - eapply ext_trans_nb; [exact E5|]. eapply GR. exact ER.
        - inversion ER; subst. exact E5. }
      eapply ext_trans_nb; [eapply ext_hit; exact E6|]. eapply IH. exact H.
  Qed.

  Lemma exec_op_listener R (GR : good_runner R) s self p o s' :
    exec_op cfg R true s self p o = Some s' -> ext nb s s'.
  Proof.
    intros H. destruct o; cbn [exec_op] in H.
    - (* SAttack *)
      match type of H with (if ?c then _ else _) = _ => destruct c end; [inversion H; subst; apply ext_refl, nb_nil|].
      destruct (in_attack s) as [ka|]; [eapply do_hits_nb; eassumption|].
      destruct qualified; [discriminate|]. eapply do_hits_nb; eassumption.
    - discriminate.
    - destruct (get_unit (units s) _); [eapply ext_set_hp; eassumption|inversion H; subst; apply ext_refl, nb_nil].
    - destruct (budget s <=? 0); inversion H; subst; [apply ext_refl, nb_nil|].
      eapply ext_trans_nb; [apply ext_set_budget|apply ext_enqueue].
    - destruct (budget s <=? 0); inversion H; subst; [apply ext_refl, nb_nil|].
      eapply ext_trans_nb; [apply ext_set_budget|apply ext_enqueue].
    - inversion H; subst. apply ext_mod_energy_fixed.
    - inversion H; subst. apply ext_mod_sp.
    - destruct (get_unit (units s) _); [|inversion H; subst; apply ext_refl, nb_nil].
      destruct (existsb _ _); inversion H; subst; [apply ext_refl, nb_nil|apply ext_upd_unit].
    - destruct (get_unit (units s) _); inversion H; subst; [apply ext_upd_unit|apply ext_refl, nb_nil].
    - (* SGaugeNorm *)
      destruct (Turn.step F (turn s) _) as [t' outs] eqn:ET. inversion H; subst.
      exists (gauge_events outs). cbn. split; [reflexivity|]. split; [apply nb_neutral, gauge_events_neutral|].
      split; [reflexivity|].
      pose proof (turn_modnorm_flags (turn s) (resolve self p t) amt) as Hf. cbn zeta in Hf.
      rewrite ET in Hf. exact Hf.
    - destruct (get_unit (units s) _); inversion H; subst; [apply ext_upd_unit|apply ext_refl, nb_nil].
    - inversion H; subst. apply ext_emit_neutral. reflexivity.
    - (* SHeal *)
      match type of H with (if ?c then _ else _) = _ => destruct c end; [inversion H; subst; apply ext_refl, nb_nil|].
      eapply ext_do_heals; eassumption.
  Qed.

  Lemma exec_list_listener R (GR : good_runner R) : forall ops s self p s',
    exec_list cfg R true s self p ops = Some s' -> ext nb s s'.
  Proof.
    induction ops as [|o ops IH]; intros s self p s' H; cbn [exec_list] in H.
    - inversion H; subst. apply ext_refl, nb_nil.
    - destruct (exec_op cfg R true s self p o) as [s1|] eqn:E1; [|discriminate].
      eapply ext_trans_nb; [eapply exec_op_listener; eassumption|]. eapply IH. exact H.
  Qed.

  Lemma exec_ops_listener : forall fuel, good_runner (exec_ops cfg fuel true).
  Proof.
    induction fuel as [|f IH]; intros s self p sc s' H; [discriminate|].
    cbn [exec_ops] in H. eapply exec_list_listener; eassumption.
  Qed.

  Lemma run_slot_nb fuel s sl self p s' : run_slot cfg fuel s sl self p = Some s' -> ext nb s s'.
  Proof.
    unfold run_slot. destruct (pop_slot s sl) as [sc s1] eqn:EP. intros H.
    assert (E1 : ext nb s s1).
    { replace s1 with (snd (pop_slot s sl)) by (rewrite EP; reflexivity). apply ext_pop_slot. }
    destruct sc as [i|].
    - eapply ext_trans_nb; [exact E1|]. eapply exec_ops_listener. exact H.
    - inversion H; subst. exact E1.
  Qed.

  (* ---- body mode ---- *)
  Definition is_ai (b : bracket) : bool :=
    match b with BAction _ _ _ | BInsert _ _ _ => true | _ => false end.

  Definition stack_of (s : sim) (base : list bracket) : list bracket :=
    match in_attack s with Some (k, a) => BAttack k a :: base | None => base end.

  (* body segment over base bracket b: moves the automaton from the stack of s to that of s' *)
  Definition bext (b : bracket) (s s' : sim) : Prop :=
    exists seg, trace s' = trace s ++ seg /\ tfl s' = tfl s /\
      forall p, is_done p = false ->
        arun (mkA p (stack_of s [b])) seg = Some (mkA p (stack_of s' [b])).

  Lemma bext_of_ext b s s' : ext nb s s' -> bext b s s'.
  Proof.
    intros (seg & T & P & I & Fl). exists seg. split; [exact T|]. split; [exact Fl|].
    intros p Hp. unfold stack_of. rewrite I. apply P. exact Hp.
  Qed.

  Lemma bext_trans b s1 s2 s3 : bext b s1 s2 -> bext b s2 s3 -> bext b s1 s3.
  Proof.
    intros (x & Tx & Fx & Px) (y & Ty & Fy & Py). exists (x ++ y).
    split; [rewrite Ty, Tx, app_assoc; reflexivity|]. split; [congruence|].
    intros p Hp. rewrite arun_app, (Px p Hp). apply Py. exact Hp.
  Qed.

  Lemma bext_end_attack b s : bext b s (end_attack s).
  Proof.
    unfold end_attack. destruct (in_attack s) as [[k a]|] eqn:EA.
    - exists [VAttackEnd k a]. cbn. split; [reflexivity|]. split; [reflexivity|].
      intros p Hp. unfold stack_of. rewrite EA. cbn [in_attack set_attack emit arun].
      unfold astep. cbn [ph]. rewrite Hp. unfold pop_if. cbn [stk bracket_eqb]. rewrite !Z.eqb_refl. reflexivity.
    - exists []. rewrite app_nil_r. repeat split.
  Qed.

  Lemma exec_op_body R (GR : good_runner R) b (Hb : is_ai b = true) s self p o s' :
    exec_op cfg R false s self p o = Some s' -> bext b s s'.
  Proof.
    intros H. destruct o;
      try (match type of H with exec_op _ _ false _ _ _ ?o = _ =>
             apply bext_of_ext; apply (exec_op_listener R GR s self p o); exact H end).
    - (* SAttack *)
      cbn [exec_op andb] in H.
      match type of H with (if ?c then _ else _) = _ => destruct c end; [inversion H; subst; apply bext_of_ext, ext_refl, nb_nil|].
      destruct (in_attack s) as [[k a]|] eqn:EA.
      + apply bext_of_ext. eapply do_hits_nb; eassumption.
      + destruct qualified.
        * (* the attack opens: the AttackStart listener runs on the state that is already "in the
             attack", then AttackStart is logged, then the hits *)
          destruct (pop_slot (set_attack s (Some (key, self))) LAttackStart) as [sc s1] eqn:EP.
          match type of H with match ?r with _ => _ end = _ => destruct r as [s2|] eqn:ER; [|discriminate] end.
          assert (E2 : ext nb (set_attack s (Some (key, self))) s2).
          { assert (E1 : ext nb (set_attack s (Some (key, self))) s1).
            { replace s1 with (snd (pop_slot (set_attack s (Some (key, self))) LAttackStart)) by (rewrite EP; reflexivity).
              apply ext_pop_slot. }
            destruct sc as [i|].
            - eapply ext_trans_nb; [exact E1|]. eapply GR. exact ER.
            - inversion ER; subst. exact E1. }
          eapply bext_trans; [|apply bext_of_ext; eapply do_hits_nb; eassumption].
          destruct E2 as (seg & T2 & P2 & I2 & F2). cbn [trace set_attack in_attack] in T2, I2.
          exists (seg ++ [VAttackStart key self]). cbn [trace emit].
          split; [rewrite T2, app_assoc; reflexivity|]. split; [exact F2|].
          intros ph0 Hp. unfold stack_of. rewrite EA. cbn [in_attack emit]. rewrite I2.
          rewrite arun_app, (P2 (mkA ph0 [b]) Hp). cbn [arun].
          unfold astep. cbn [ph]. rewrite Hp. cbn [stk]. destruct b; try discriminate; reflexivity.
        * apply bext_of_ext. eapply do_hits_nb; eassumption.
    - (* SEndAttack *)
      cbn [exec_op] in H. inversion H; subst. apply bext_end_attack.
  Qed.

  Lemma exec_list_body R (GR : good_runner R) b (Hb : is_ai b = true) : forall ops s self p s',
    exec_list cfg R false s self p ops = Some s' -> bext b s s'.
  Proof.
    induction ops as [|o ops IH]; intros s self p s' H; cbn [exec_list] in H.
    - inversion H; subst. exists []. rewrite app_nil_r. repeat split.
    - destruct (exec_op cfg R false s self p o) as [s1|] eqn:E1; [|discriminate].
      eapply bext_trans; [eapply exec_op_body; eassumption|]. eapply IH. exact H.
  Qed.

  Lemma exec_ops_body fuel b (Hb : is_ai b = true) s self p sc s' :
    exec_ops cfg fuel false s self p sc = Some s' -> bext b s s'.
  Proof.
    destruct fuel as [|f]; [discriminate|]. cbn [exec_ops].
    apply exec_list_body; [apply exec_ops_listener|exact Hb].
  Qed.
End Scripts.

(* ------------------------------------------------------------------ *)
(* Actions, inserts, the queue                                          *)
(* ------------------------------------------------------------------ *)
Section Loop.
  Variable cfg : config.

  Definition idle (s : sim) : Prop := in_attack s = None.

  (* a segment a queue window accepts with an empty stack, returning to the same state *)
  Definition wseg (seg : list ev) : Prop :=
    forall p, is_window p = true -> arun (mkA p []) seg = Some (mkA p []).

  Definition wext (s s' : sim) : Prop :=
    exists seg, trace s' = trace s ++ seg /\ idle s' /\ tfl s' = tfl s /\ wseg seg.

  Lemma window_live p : is_window p = true -> is_done p = false.
  Proof. destruct p; cbn; congruence. Qed.

  Lemma wseg_nb seg : nb seg -> wseg seg.
  Proof. intros H p Hp. apply H. apply window_live. exact Hp. Qed.

  Lemma wseg_app a b : wseg a -> wseg b -> wseg (a ++ b).
  Proof. intros Ha Hb p Hp. rewrite arun_app, (Ha p Hp). apply Hb. exact Hp. Qed.

  Lemma wext_of_ext s s' : idle s -> ext nb s s' -> wext s s'.
  Proof.
    intros Hi (seg & T & P & I & Fl). exists seg. split; [exact T|]. split; [unfold idle; congruence|].
    split; [exact Fl|]. apply wseg_nb. exact P.
  Qed.

  Lemma wext_trans s1 s2 s3 : wext s1 s2 -> wext s2 s3 -> wext s1 s3.
  Proof.
    intros (a & Ta & Ia & Fa & Pa) (b & Tb & Ib & Fb & Pb). exists (a ++ b).
    split; [rewrite Tb, Ta, app_assoc; reflexivity|]. split; [exact Ib|]. split; [congruence|].
    apply wseg_app; assumption.
  Qed.

  Lemma wext_refl s : idle s -> wext s s.
  Proof. intros Hi. exists []. rewrite app_nil_r. split; [reflexivity|]. split; [exact Hi|]. split; [reflexivity|]. intros p _. reflexivity. Qed.

  (* run_body: content, then the engine closes an open attack, then the end event's listeners *)
  Lemma run_body_spec fuel s self p sc endev sl s' b : idle s -> is_ai b = true ->
    run_body cfg fuel s self p sc endev sl = Some s' ->
    exists seg, trace s' = trace s ++ seg ++ [endev] /\ idle s' /\ tfl s' = tfl s /\
      forall ph0, is_done ph0 = false -> arun (mkA ph0 [b]) seg = Some (mkA ph0 [b]).
  Proof.
    intros Hi Hb H. unfold run_body in H.
    destruct (exec_ops cfg fuel false s self p sc) as [s1|] eqn:E1; [|discriminate].
    pose proof (exec_ops_body cfg fuel b Hb _ _ _ _ _ E1) as B1.
    pose proof (bext_end_attack b s1) as B2.
    pose proof (bext_trans b _ _ _ B1 B2) as (seg & T & Fl & P).
    assert (I2 : idle (end_attack s1)).
    { unfold idle, end_attack. destruct (in_attack s1) as [[k a]|] eqn:EA; [reflexivity|exact EA]. }
    assert (P' : forall ph0, is_done ph0 = false -> arun (mkA ph0 [b]) seg = Some (mkA ph0 [b])).
    { intros ph0 Hp. specialize (P ph0 Hp). unfold stack_of in P. rewrite Hi, I2 in P. exact P. }
    destruct sl as [x|].
    - destruct (run_slot cfg fuel (end_attack s1) x self self) as [s3|] eqn:E3; [|discriminate].
      inversion H; subst; clear H.
      destruct (run_slot_nb cfg _ _ _ _ _ _ E3) as (seg3 & T3 & P3 & I3 & F3).
      exists (seg ++ seg3). cbn [trace emit]. rewrite T3, T, <- !app_assoc.
      split; [reflexivity|]. split; [unfold idle in *; cbn [in_attack emit]; rewrite I3; exact I2|].
      split; [unfold tfl in *; cbn [turn emit]; congruence|].
      intros ph0 Hp. rewrite arun_app, (P' ph0 Hp). apply P3. exact Hp.
    - inversion H; subst; clear H. exists seg. cbn [trace emit]. rewrite T, <- app_assoc.
      split; [reflexivity|]. split; [exact I2|]. split; [exact Fl|exact P'].
  Qed.

  (* opening an action / insert bracket in a window, a balanced body, closing it *)
  Lemma wseg_action_ins o t seg :
    (forall ph0, is_done ph0 = false -> arun (mkA ph0 [BAction o t true]) seg = Some (mkA ph0 [BAction o t true])) ->
    wseg (VActionStart o t true :: seg ++ [VActionEnd o t true]).
  Proof.
    intros P p Hp. cbn [arun]. unfold astep at 1. cbn [ph]. rewrite (window_live p Hp). cbn [empty_stk stk negb].
    rewrite Hp. rewrite arun_app, (P p (window_live p Hp)). cbn [arun]. unfold astep. cbn [ph].
    rewrite (window_live p Hp). cbn [stk bracket_eqb]. rewrite !Z.eqb_refl. cbn. reflexivity.
  Qed.

  Lemma wseg_insert k o pr seg :
    (forall ph0, is_done ph0 = false -> arun (mkA ph0 [BInsert k o pr]) seg = Some (mkA ph0 [BInsert k o pr])) ->
    wseg (VInsertStart k o pr :: seg ++ [VInsertEnd k o pr]).
  Proof.
    intros P p Hp. cbn [arun]. unfold astep at 1. cbn [ph]. rewrite (window_live p Hp). cbn [empty_stk stk andb].
    rewrite Hp. rewrite arun_app, (P p (window_live p Hp)). cbn [arun]. unfold astep. cbn [ph].
    rewrite (window_live p Hp). cbn [stk bracket_eqb]. rewrite !Z.eqb_refl. cbn. reflexivity.
  Qed.

  Lemma pop_act_frame s id sc s4 : pop_act cfg s id = (sc, s4) ->
    trace s4 = trace s /\ in_attack s4 = in_attack s /\ tfl s4 = tfl s.
  Proof.
    unfold pop_act. intros E. destruct (get_unit (units s) id) as [u|]; [destruct (uacts u)|];
      inversion E; subst; repeat split.
  Qed.

  (* the part of execute_action / execute_ult after the target is chosen: neutral prefix [pre]
     (decisions, SP change), ActionStart, the content call marker, the body, ActionEnd *)
  Lemma action_tail fuel s0 s3 id atype ins k p s' :
    idle s0 -> ext nb s0 s3 -> forall sc' s4,
    pop_act cfg (emit s3 [VActionStart id atype ins]) id = (sc', s4) ->
    run_body cfg fuel (emit s4 [VCall k id p]) id p sc' (VActionEnd id atype ins) (Some LActionEnd) = Some s' ->
    exists pre body, trace s' = trace s0 ++ pre ++ VActionStart id atype ins :: body ++ [VActionEnd id atype ins] /\
      nb pre /\ idle s' /\ tfl s' = tfl s0 /\
      forall ph0, is_done ph0 = false ->
        arun (mkA ph0 [BAction id atype ins]) body = Some (mkA ph0 [BAction id atype ins]).
  Proof.
    intros Hi (pre & T3 & P3 & I3 & F3) sc' s4 E4 H.
    set (s3' := emit s3 [VActionStart id atype ins]) in *.
    destruct (pop_act_frame _ _ _ _ E4) as (T4 & I4 & F4).
    assert (Hi5 : idle (emit s4 [VCall k id p])).
    { unfold idle. cbn. rewrite I4. cbn. rewrite I3. exact Hi. }
    destruct (run_body_spec fuel _ _ _ _ _ _ _ (BAction id atype ins) Hi5 eq_refl H) as (seg & T & I & Fl & P).
    exists pre, (VCall k id p :: seg).
    split.
    { rewrite T. cbn [trace emit]. rewrite T4. cbn [trace emit s3']. rewrite T3.
      rewrite <- !app_assoc. cbn. reflexivity. }
    split; [exact P3|]. split; [exact I|].
    split; [unfold tfl in *; cbn [turn emit] in *; unfold s3' in *; cbn [turn emit] in *; congruence|].
    intros ph0 Hp. cbn [arun]. rewrite (neutral_step (mkA ph0 [BAction id atype ins]) (VCall k id p) eq_refl Hp). apply P. exact Hp.
  Qed.

  Lemma ext_set_next s q : ext nb s (set_next s q).
  Proof. ext_same. Qed.
  Lemma ext_set_ults s q : ext nb s (set_ults s q).
  Proof. ext_same. Qed.
  Lemma ext_set_lists s c e : ext nb s (set_lists s c e).
  Proof. ext_same. Qed.

  Definition action_shape (s s' : sim) (id : Z) (ins : bool) : Prop :=
    exists pre atype body,
      trace s' = trace s ++ pre ++ VActionStart id atype ins :: body ++ [VActionEnd id atype ins] /\
      nb pre /\ idle s' /\ tfl s' = tfl s /\
      forall ph0, is_done ph0 = false ->
        arun (mkA ph0 [BAction id atype ins]) body = Some (mkA ph0 [BAction id atype ins]).

  Lemma execute_action_spec fuel s id ins s' : idle s ->
    execute_action cfg fuel s id ins = AOk s' -> s' = s \/ action_shape s s' id ins.
  Proof.
    intros Hi H. unfold execute_action in H.
    destruct (get_unit (units s) id) as [u|]; [|inversion H; auto].
    destruct (ust u); try (inversion H; auto; fail).
    destruct (uchar u).
    - destruct (pop_next (next_q s) id) as [d q] eqn:EN.
      set (s1 := emit (set_next s q) [VNextAction id (dc_type d) (dc_eval d)]) in *.
      assert (E1 : ext nb s s1).
      { eapply ext_trans_nb; [apply ext_set_next|]. apply ext_emit_neutral. reflexivity. }
      destruct ((dc_type d =? 1) && negb (can_skill u s1)) eqn:ED.
      + (* fallback to the default attack *)
        set (s2 := emit s1 [VDefaultAction id]) in *.
        assert (E2 : ext nb s s2) by (eapply ext_trans_nb; [exact E1|apply ext_emit_neutral; reflexivity]).
        destruct (evaluate s2 id 100 (utt_a u)) as [p|]; [|discriminate].
        destruct (pop_act cfg _ id) as [sc s4] eqn:EPA.
        match type of H with match ?x with _ => _ end = _ => destruct x as [s6|] eqn:EB; [|discriminate] end.
        inversion H; subst; clear H. right.
        assert (E3 : ext nb s (mod_sp s2 (uspadd u))) by (eapply ext_trans_nb; [exact E2|apply ext_mod_sp]).
        destruct (action_tail fuel s _ id ATYPE_NORMAL ins 0 p s' Hi E3 _ _ EPA EB) as (pre & body & T & Pp & I & Fl & Pb).
        exists pre, ATYPE_NORMAL, body. auto.
      + destruct (evaluate s1 id (dc_eval d) (if dc_type d =? 1 then utt_s u else utt_a u)) as [p|]; [|discriminate].
        destruct (pop_act cfg _ id) as [sc s4] eqn:EPA.
        match type of H with match ?x with _ => _ end = _ => destruct x as [s6|] eqn:EB; [|discriminate] end.
        inversion H; subst; clear H. right.
        set (delta := if dc_type d =? 1 then - uspneed u else uspadd u) in *.
        assert (E3 : ext nb s (mod_sp s1 delta)) by (eapply ext_trans_nb; [exact E1|apply ext_mod_sp]).
        destruct (action_tail fuel s _ id _ ins _ p s' Hi E3 _ _ EPA EB) as (pre & body & T & Pp & I & Fl & Pb).
        eexists pre, _, body. eauto.
    - destruct (chars s); [discriminate|].
      destruct (pop_act cfg _ id) as [sc s4] eqn:EPA.
      match type of H with match ?x with _ => _ end = _ => destruct x as [s6|] eqn:EB; [|discriminate] end.
      inversion H; subst; clear H. right.
      assert (E3 : ext nb s (mod_sp s 0)) by apply ext_mod_sp.
      destruct (action_tail fuel s _ id ATYPE_NORMAL ins 3 0 s' Hi E3 _ _ EPA EB) as (pre & body & T & Pp & I & Fl & Pb).
      exists pre, ATYPE_NORMAL, body. auto.
  Qed.

  Lemma action_shape_wext s s' id : idle s -> action_shape s s' id true -> wext s s'.
  Proof.
    intros Hi (pre & atype & body & T & Pp & I & Fl & Pb).
    exists (pre ++ VActionStart id atype true :: body ++ [VActionEnd id atype true]).
    split; [exact T|]. split; [exact I|]. split; [exact Fl|].
    apply wseg_app; [apply wseg_nb; exact Pp|apply wseg_action_ins; exact Pb].
  Qed.

  Lemma execute_ult_spec fuel s r s' : idle s -> execute_ult cfg fuel s r = AOk s' -> wext s s'.
  Proof.
    intros Hi H. unfold execute_ult in H.
    destruct (get_unit (units s) (ur_target r)) as [u|]; [|inversion H; subst; apply wext_refl; exact Hi].
    destruct (negb (uchar u)); [inversion H; subst; apply wext_refl; exact Hi|].
    destruct (negb (ur_type r =? 3)); [inversion H; subst; apply wext_refl; exact Hi|].
    destruct (evaluate s (ur_target r) (ur_eval r) (utt_u u)) as [p|]; [|inversion H; subst; apply wext_refl; exact Hi].
    destruct (pop_act cfg _ (ur_target r)) as [sc s4] eqn:EPA.
    match type of H with match ?x with _ => _ end = _ => destruct x as [s6|] eqn:EB; [|discriminate] end.
    inversion H; subst; clear H.
    destruct (action_tail fuel s s (ur_target r) ATYPE_ULT true 2 p s' Hi (ext_refl nb s nb_nil) _ _ EPA EB)
      as (pre & body & T & Pp & I & Fl & Pb).
    apply (action_shape_wext s s' (ur_target r) Hi). exists pre, ATYPE_ULT, body. auto.
  Qed.

  Lemma execute_task_spec fuel s t s' : idle s -> execute_task cfg fuel s t = AOk s' -> wext s s'.
  Proof.
    intros Hi H. unfold execute_task in H. destruct (t_kind t) as [key prio abort body| |r].
    - match type of H with match ?x with _ => _ end = _ => destruct x as [s2|] eqn:EB; [|discriminate] end.
      inversion H; subst; clear H.
      assert (Hi1 : idle (emit s [VInsertStart key (t_src t) prio])) by exact Hi.
      destruct (run_body_spec fuel _ _ _ _ _ _ _ (BInsert key (t_src t) prio) Hi1 eq_refl EB) as (seg & T & I & Fl & P).
      exists (VInsertStart key (t_src t) prio :: seg ++ [VInsertEnd key (t_src t) prio]).
      split; [rewrite T; cbn [trace emit]; rewrite <- !app_assoc; reflexivity|].
      split; [exact I|]. split; [exact Fl|]. apply wseg_insert. exact P.
    - destruct (execute_action cfg fuel s (t_src t) true) as [s2|s2|s2|] eqn:EA; try discriminate.
      + inversion H; subst; clear H.
        destruct (execute_action_spec fuel s (t_src t) true s' Hi EA) as [->|Hs];
          [apply wext_refl; exact Hi|eapply action_shape_wext; eassumption].
      + (* the queued closure drops the error: the action's preparation left only neutral events *)
        inversion H; subst; clear H.
        unfold execute_action in EA.
        destruct (get_unit (units s) (t_src t)) as [u|]; [|discriminate].
        destruct (ust u); try discriminate.
        destruct (uchar u).
        * destruct (pop_next (next_q s) (t_src t)) as [d q] eqn:EN.
          set (s1 := emit (set_next s q) [VNextAction (t_src t) (dc_type d) (dc_eval d)]) in *.
          assert (E1 : ext nb s s1).
          { eapply ext_trans_nb; [apply ext_set_next|]. apply ext_emit_neutral. reflexivity. }
          destruct ((dc_type d =? 1) && negb (can_skill u s1)).
          -- destruct (evaluate _ _ 100 _); [destruct (pop_act _ _ _); destruct (run_body _ _ _ _ _ _ _ _); discriminate|].
             inversion EA; subst. apply wext_of_ext; [exact Hi|].
             eapply ext_trans_nb; [exact E1|apply ext_emit_neutral; reflexivity].
          -- destruct (evaluate _ _ _ _); [destruct (pop_act _ _ _); destruct (run_body _ _ _ _ _ _ _ _); discriminate|].
             inversion EA; subst. apply wext_of_ext; assumption.
        * destruct (chars s); [discriminate|]. destruct (pop_act _ _ _); destruct (run_body _ _ _ _ _ _ _ _); discriminate.
    - eapply execute_ult_spec; eassumption.
  Qed.

  (* ---- death check, ult check, exit check ---- *)
  Lemma announce_nb fuel : forall ids s s', announce cfg fuel s ids = Some s' -> ext nb s s'.
  Proof.
    induction ids as [|id ids IH]; intros s s' H; cbn [announce] in H.
    - inversion H; subst. apply ext_refl, nb_nil.
    - destruct (Turn.step F (turn s) (@ORemove F id)) as [t' outs] eqn:ET.
      set (s1 := set_turn s t') in *.
      assert (E1 : ext nb s s1).
      { exists []. cbn. rewrite app_nil_r. split; [reflexivity|]. split; [apply nb_nil|]. split; [reflexivity|].
        pose proof (turn_remove_flags (turn s) id) as Hf. cbn zeta in Hf. rewrite ET in Hf. exact Hf. }
      match type of H with match run_slot _ _ ?x _ _ _ with _ => _ end = _ => set (s2 := x) in * end.
      destruct (run_slot cfg fuel s2 LDeath id _) as [s3|] eqn:ER; [|discriminate].
      eapply ext_trans_nb; [exact E1|].
      assert (E2 : ext nb s1 s2).
      { unfold s2. eapply ext_trans_nb; [apply ext_mod_energy_fixed|]. apply ext_emit_neutral. reflexivity. }
      eapply ext_trans_nb; [exact E2|].
      eapply ext_trans_nb; [eapply run_slot_nb; exact ER|].
      eapply ext_trans_nb; [|eapply IH; exact H].
      apply ext_emit_neutral. reflexivity.
  Qed.

  Lemma death_check_nb fuel s k s' : death_check cfg fuel s k = Some s' -> ext nb s s'.
  Proof.
    unfold death_check. intros H. eapply ext_trans_nb; [apply ext_set_lists|]. eapply announce_nb. exact H.
  Qed.

  Lemma ult_reqs_nb : forall reqs s s', ult_reqs s reqs = Ok s' -> ext nb s s'.
  Proof.
    induction reqs as [|r reqs IH]; intros s s' H; cbn [ult_reqs] in H.
    - inversion H; subst. apply ext_refl, nb_nil.
    - destruct (get_unit (units s) (ur_target r)) as [u|]; [|discriminate].
      destruct (negb (uchar u)); [discriminate|].
      destruct (can_ult u).
      + eapply ext_trans_nb; [apply ext_enqueue|]. eapply ext_trans_nb; [apply ext_set_energy|]. eapply IH. exact H.
      + eapply IH. exact H.
  Qed.

  Lemma ult_check_nb s s' : ult_check s = Ok s' -> ext nb s s'.
  Proof.
    unfold ult_check. destruct (ults_q s) as [|x r]; intros H.
    - eapply ext_trans_nb; [apply ext_set_ults|].
      eapply ext_trans_nb; [|eapply ult_reqs_nb; exact H]. apply ext_emit_neutral. reflexivity.
    - eapply ext_trans_nb; [apply ext_set_ults|].
      eapply ext_trans_nb; [|eapply ult_reqs_nb; exact H]. apply ext_emit_neutral. reflexivity.
  Qed.

  Lemma ult_reqs_no_stop : forall reqs s s', ult_reqs s reqs <> Stop s'.
  Proof.
    induction reqs as [|r reqs IH]; intros s s'; cbn [ult_reqs]; [discriminate|].
    destruct (get_unit (units s) (ur_target r)) as [u|]; [|discriminate].
    destruct (negb (uchar u)); [discriminate|]. destruct (can_ult u); apply IH.
  Qed.
  Lemma ult_check_no_stop s s' : ult_check s <> Stop s'.
  Proof. unfold ult_check. destruct (ults_q s); apply ult_reqs_no_stop. Qed.

  Lemma exit_check_cases s :
    exit_check cfg s = Ok s \/ exists r, exit_check cfg s = Stop (emit s [VTermination r (total_av s)]).
  Proof.
    unfold exit_check. match goal with |- context [if ?c =? 0 then _ else _] => destruct (c =? 0) end; eauto.
  Qed.

  (* a terminated extension: from any window with an empty stack to Done *)
  Definition tseg (seg : list ev) : Prop :=
    forall p, is_window p = true -> arun (mkA p []) seg = Some (mkA PDone []).
  Definition text (s s' : sim) : Prop := exists seg, trace s' = trace s ++ seg /\ tseg seg.

  Lemma tseg_term r t : tseg [VTermination r t].
  Proof.
    intros p Hp. cbn [arun]. unfold astep. cbn [ph]. rewrite (window_live p Hp). cbn [empty_stk stk andb].
    rewrite Hp. reflexivity.
  Qed.

  Lemma text_after_wext s1 s2 s3 : wext s1 s2 -> text s2 s3 -> text s1 s3.
  Proof.
    intros (a & Ta & _ & _ & Pa) (b & Tb & Pb). exists (a ++ b).
    split; [rewrite Tb, Ta, app_assoc; reflexivity|].
    intros p Hp. rewrite arun_app, (Pa p Hp). apply Pb. exact Hp.
  Qed.

  Lemma exit_check_spec s o : exit_check cfg s = o ->
    match o with
    | Ok s' => s' = s
    | Stop s' => text s s'
    | _ => False
    end.
  Proof.
    intros <-. destruct (exit_check_cases s) as [E|(r & E)]; rewrite E; [reflexivity|].
    exists [VTermination r (total_av s)]. split; [reflexivity|apply tseg_term].
  Qed.

  (* ---- the queue ---- *)
  Lemma pop_frame s t s1 : pop s = Some (t, s1) ->
    trace s1 = trace s /\ in_attack s1 = in_attack s /\ tfl s1 = tfl s.
  Proof. unfold pop. destruct (queue s); [discriminate|]. intros H. inversion H; subst. repeat split. Qed.

  Lemma drain_spec : forall fuel s, idle s ->
    match drain cfg fuel s with
    | Ok s' => wext s s'
    | Stop s' => text s s'
    | _ => True
    end.
  Proof.
    induction fuel as [|f IH]; intros s Hi; cbn [drain]; [exact I|].
    destruct (pop s) as [[t s1]|] eqn:EP; [|apply wext_refl; exact Hi].
    destruct (pop_frame _ _ _ EP) as (T1 & I1 & F1).
    assert (W1 : wext s s1).
    { exists []. rewrite app_nil_r. split; [exact T1|]. split; [unfold idle; congruence|]. split; [exact F1|].
      intros p _. reflexivity. }
    assert (Hi1 : idle s1) by (unfold idle; congruence).
    assert (Hrec : match drain cfg f s1 with Ok s' => wext s s' | Stop s' => text s s' | _ => True end).
    { specialize (IH s1 Hi1). destruct (drain cfg f s1); auto.
      - eapply wext_trans; eassumption.
      - eapply text_after_wext; eassumption. }
    destruct (_ || _).
    { pose proof (exit_check_spec s _ eq_refl) as HE. destruct (exit_check cfg s); auto.
      subst. apply wext_refl; exact Hi. }
    destruct (match state_of s1 (t_src t) with Some Dead => true | _ => false end); [exact Hrec|].
    destruct (negb (existsb _ _)); [exact Hrec|].
    destruct (has_flag s1 (t_src t) (t_abort t)); [exact Hrec|].
    destruct (execute_task cfg f s1 t) as [s2|s2|s2|] eqn:ET; auto.
    pose proof (execute_task_spec f s1 t s2 Hi1 ET) as W2.
    assert (Hi2 : idle s2) by (destruct W2 as (? & _ & I2 & _); exact I2).
    destruct (death_check cfg f s2 false) as [s3|] eqn:ED; auto.
    pose proof (wext_of_ext s2 s3 Hi2 (death_check_nb _ _ _ _ ED)) as W3.
    assert (Hi3 : idle s3) by (destruct W3 as (? & _ & I3 & _); exact I3).
    pose proof (wext_trans _ _ _ W1 (wext_trans _ _ _ W2 W3)) as W13.
    pose proof (exit_check_spec s3 _ eq_refl) as HE. destruct (exit_check cfg s3) as [s4|s4|s4|]; auto.
    - subst s4. destruct (ult_check s3) as [s5|s5|s5|] eqn:EU; auto.
      + pose proof (wext_of_ext s3 s5 Hi3 (ult_check_nb _ _ EU)) as W5.
        assert (Hi5 : idle s5) by (destruct W5 as (? & _ & I5 & _); exact I5).
        specialize (IH s5 Hi5). destruct (drain cfg f s5); auto.
        * eapply wext_trans; [exact W13|]. eapply wext_trans; eassumption.
        * eapply text_after_wext; [eapply wext_trans; [exact W13|exact W5]|exact IH].
      + exfalso. eapply ult_check_no_stop. exact EU.
    - eapply text_after_wext; eassumption.
  Qed.

  Lemma execute_queue_spec fuel s b : idle s ->
    match execute_queue cfg fuel s b with
    | Ok s' => wext s s'
    | Stop s' => text s s'
    | _ => True
    end.
  Proof.
    intros Hi. unfold execute_queue. destruct (ult_check s) as [s1|s1|s1|] eqn:EU; auto.
    - pose proof (wext_of_ext s s1 Hi (ult_check_nb _ _ EU)) as W1.
      assert (Hi1 : idle s1) by (destruct W1 as (? & _ & I1 & _); exact I1).
      destruct (b && negb (is_char s1 (active_id s1))).
      + pose proof (exit_check_spec s1 _ eq_refl) as HE. destruct (exit_check cfg s1); auto.
        * subst. exact W1.
        * eapply text_after_wext; eassumption.
      + pose proof (drain_spec fuel s1 Hi1) as HD. destruct (drain cfg fuel s1); auto.
        * eapply wext_trans; eassumption.
        * eapply text_after_wext; eassumption.
    - exfalso. eapply ult_check_no_stop. exact EU.
  Qed.
End Loop.


(* ------------------------------------------------------------------ *)
(* Turns and the whole run                                              *)
(* ------------------------------------------------------------------ *)
Section Run.
  Variable cfg : config.

  Definition one : float := nofZ F 1.

  Lemma turn_start_flags (t t' : tstate F) id av st tot :
    Turn.step F t (@OStart F) = (t', [EStart id av st tot]) -> active t' = true /\ cost t' = one.
  Proof.
    cbn [Turn.step]. destruct (active t); [discriminate|].
    destruct (resort F t (order t)); [discriminate|].
    destruct (negb _); [discriminate|]. intros H. inversion H; subst. split; reflexivity.
  Qed.

  Lemma base_gauge_conv : negb (ntoZ_ok F (nmul F (nofZ F BaseGauge) one)) = false.
  Proof. vm_compute. reflexivity. Qed.

  Lemma turn_reset_outs (t : tstate F) : active t = true -> cost t = one ->
    exists t2 i c st, Turn.step F t (@OReset F) = (t2, [EReset i c st]).
  Proof.
    intros Ha Hc. cbn [Turn.step]. rewrite Ha. cbn [negb].
    destruct (Turn.find (order t) (atarget t)); [|eauto].
    rewrite Hc, base_gauge_conv. eauto.
  Qed.

  Definition turn_on (s : sim) : Prop := active (turn s) = true /\ cost (turn s) = one.

  Lemma turn_on_tfl s s' : tfl s' = tfl s -> turn_on s -> turn_on s'.
  Proof. unfold tfl, turn_on. intros H [A C]. inversion H. split; congruence. Qed.

  Lemma wext_turn_on s s' : wext s s' -> turn_on s -> turn_on s'.
  Proof. intros (? & _ & _ & Fl & _). apply turn_on_tfl. exact Fl. Qed.
  Lemma ext_turn_on s s' : ext nb s s' -> turn_on s -> turn_on s'.
  Proof. intros (? & _ & _ & _ & Fl). apply turn_on_tfl. exact Fl. Qed.

  (* where phase 2 may be entered from *)
  Definition pre_reset (p : phase) (a : Z) : Prop := p = PPhase1 a \/ p = PAction a \/ p = PAfterAction a.

  (* outcome of a piece of the turn, started in automaton state (p, []) *)
  Definition piece (p : phase) (s : sim) (o : outcome) : Prop :=
    match o with
    | Ok s' => exists seg, trace s' = trace s ++ seg /\ idle s' /\ arun (mkA p []) seg = Some (mkA PBetween [])
    | Stop s' => exists seg, trace s' = trace s ++ seg /\ arun (mkA p []) seg = Some (mkA PDone [])
    | _ => True
    end.

  Lemma piece_prefix p p1 s s1 pre o : trace s1 = trace s ++ pre -> arun (mkA p []) pre = Some (mkA p1 []) ->
    piece p1 s1 o -> piece p s o.
  Proof.
    intros T A H. destruct o as [s'|s'|s'|]; auto.
    - destruct H as (seg & Ts & Is & As). exists (pre ++ seg).
      split; [rewrite Ts, T, app_assoc; reflexivity|]. split; [exact Is|]. rewrite arun_app, A. exact As.
    - destruct H as (seg & Ts & As). exists (pre ++ seg).
      split; [rewrite Ts, T, app_assoc; reflexivity|]. rewrite arun_app, A. exact As.
  Qed.

  Lemma phase2_spec fuel s a p : idle s -> turn_on s -> pre_reset p a -> piece p s (phase2 cfg fuel s).
  Proof.
    intros Hi [Ha Hc] Hp. unfold phase2.
    destruct (turn_reset_outs (turn s) Ha Hc) as (t2 & i & c & st & ER). rewrite ER.
    cbn [reset_events flat_map app].
    set (rs := VTurnReset i (map (fun x => (fst (fst x), snd (fst x))) st)).
    set (s1 := emit (set_turn s t2) [rs; VPhase2Start]).
    assert (Hi1 : idle s1) by exact Hi.
    assert (A1 : arun (mkA p []) [rs; VPhase2Start] = Some (mkA (PPhase2 a) [])).
    { destruct Hp as [ -> | [ -> | -> ] ]; reflexivity. }
    apply (piece_prefix p (PPhase2 a) s s1 [rs; VPhase2Start]); [reflexivity|exact A1|].
    pose proof (execute_queue_spec cfg fuel s1 false Hi1) as HQ.
    destruct (execute_queue cfg fuel s1 false) as [s6|s6|s6|]; cbn [piece]; auto.
    - destruct HQ as (q & Tq & Iq & _ & Pq).
      destruct (run_slot cfg fuel s6 LPhase2 (active_id s6) (active_id s6)) as [s6'|] eqn:ER2; cbn [piece]; auto.
      destruct (run_slot_nb cfg _ _ _ _ _ _ ER2) as (r2 & Tr & Pr & Ir & _).
      destruct (death_check cfg fuel (emit s6' [VPhase2End]) true) as [s8|] eqn:ED; cbn [piece]; auto.
      destruct (death_check_nb _ _ _ _ _ ED) as (d & Td & Pd & Id & _).
      cbn [trace emit in_attack] in Td, Id.
      set (te := VTurnEnd (chars s8) (enemies s8)).
      assert (A8 : arun (mkA (PPhase2 a) []) (q ++ r2 ++ VPhase2End :: d ++ [te]) = Some (mkA PBetween [])).
      { rewrite arun_app, (Pq (PPhase2 a) eq_refl).
        rewrite arun_app, (Pr (mkA (PPhase2 a) []) eq_refl). cbn [arun].
        change (astep (mkA (PPhase2 a) []) VPhase2End) with (Some (mkA (PEnd2 a) [])). cbn iota.
        rewrite arun_app, (Pd (mkA (PEnd2 a) []) eq_refl). reflexivity. }
      assert (T8 : trace (emit s8 [te]) = trace s1 ++ q ++ r2 ++ VPhase2End :: d ++ [te]).
      { cbn [trace emit]. rewrite Td, Tr, Tq. rewrite <- !app_assoc. reflexivity. }
      destruct (exit_check_cases cfg (emit s8 [te])) as [E|(r & E)]; rewrite E; cbn [piece].
      + eexists. split; [exact T8|]. split; [|exact A8]. unfold idle. cbn. rewrite Id, Ir. exact Iq.
      + eexists. split; [cbn [trace emit]; cbn [trace emit] in T8; rewrite T8, <- app_assoc; reflexivity|].
        rewrite arun_app, A8. reflexivity.
    - destruct HQ as (q & Tq & Pq). eexists. split; [exact Tq|]. apply Pq. reflexivity.
  Qed.

  Lemma one_turn_spec fuel s p : idle s -> p = PWin0 \/ p = PBetween -> piece p s (one_turn cfg fuel s).
  Proof.
    intros Hi Hp. unfold one_turn.
    destruct (Turn.step F (turn s) (@OStart F)) as [t' outs] eqn:ES.
    destruct outs as [|o [|o2 outs]]; cbn [piece]; auto; destruct o; cbn [piece]; auto.
    destruct (match get_unit (units s) id with Some _ => false | None => true end); cbn [piece]; auto.
    destruct (turn_start_flags _ _ _ _ _ _ ES) as [Ha Hc].
    set (ts := VTurnStart id av tot (map (fun x => (fst (fst x), snd (fst x))) st)).
    set (s2a := emit (emit (set_active (set_turn s t') id) [ts]) [VPhase1Start]).
    assert (Hon2a : turn_on s2a) by (split; assumption).
    assert (Hi2a : idle s2a) by exact Hi.
    assert (A2 : arun (mkA p []) [ts; VPhase1Start] = Some (mkA (PPhase1 id) [])).
    { destruct Hp as [ -> | -> ]; reflexivity. }
    apply (piece_prefix p (PPhase1 id) s s2a [ts; VPhase1Start]);
      [cbn [trace emit s2a set_active set_turn]; rewrite <- app_assoc; reflexivity|exact A2|].
    destruct (run_slot cfg fuel s2a LPhase1 id id) as [s2|] eqn:ER1; cbn [piece]; auto.
    destruct (run_slot_nb cfg _ _ _ _ _ _ ER1) as (r1 & Tr1 & Pr1 & Ir1 & Fr1).
    assert (Hi2 : idle s2) by (unfold idle; congruence).
    assert (Hon2 : turn_on s2) by (eapply turn_on_tfl; eassumption).
    apply (piece_prefix _ (PPhase1 id) s2a s2 r1 _ Tr1 (Pr1 (mkA (PPhase1 id) []) eq_refl)).
    destruct (death_check cfg fuel s2 false) as [s3|] eqn:ED; cbn [piece]; auto.
    pose proof (death_check_nb _ _ _ _ _ ED) as E3.
    destruct E3 as (d & Td & Pd & Id & Fd).
    assert (Hi3 : idle s3) by (unfold idle; congruence).
    assert (Hon3 : turn_on s3) by (eapply turn_on_tfl; eassumption).
    assert (A3 : arun (mkA (PPhase1 id) []) d = Some (mkA (PPhase1 id) [])) by (apply Pd; reflexivity).
    apply (piece_prefix _ (PPhase1 id) s2 s3 d _ Td A3).
    destruct (has_flag s3 id [FLAG_DISABLE_ACTION]).
    { apply (phase2_spec fuel s3 id); auto. left. reflexivity. }
    destruct (is_enemy s3 id && has_flag s3 id [FLAG_BREAK_EXTEND]).
    { apply (piece_prefix _ (PPhase1 id) s3 (emit s3 [VBreakExtend id]) [VBreakExtend id]); [reflexivity|reflexivity|].
      apply (phase2_spec fuel _ id); auto. left. reflexivity. }
    pose proof (execute_queue_spec cfg fuel s3 true Hi3) as HQ.
    destruct (execute_queue cfg fuel s3 true) as [s4|s4|s4|]; cbn [piece]; auto.
    2: { destruct HQ as (q & Tq & Pq). eexists. split; [exact Tq|]. apply Pq. reflexivity. }
    destruct HQ as (q & Tq & Iq & Fq & Pq).
    assert (Hon4 : turn_on s4) by (eapply turn_on_tfl; eassumption).
    set (s4' := emit s4 [VPhase1End]).
    assert (A4 : arun (mkA (PPhase1 id) []) (q ++ [VPhase1End]) = Some (mkA (PAction id) [])).
    { rewrite arun_app, (Pq (PPhase1 id) eq_refl). reflexivity. }
    apply (piece_prefix _ (PAction id) s3 s4' (q ++ [VPhase1End]));
      [cbn [trace emit s4']; rewrite Tq, <- app_assoc; reflexivity|exact A4|].
    assert (Hi4 : idle s4') by exact Iq.
    destruct (execute_action cfg fuel s4' id false) as [s5|s5|s5|] eqn:EA; cbn [piece]; auto.
    destruct (execute_action_spec cfg fuel s4' id false s5 Hi4 EA) as [->|Hs].
    - (* the own action was not performed (dead or in limbo) *)
      destruct (death_check cfg fuel s4' false) as [s5'|] eqn:ED5; cbn [piece]; auto.
      destruct (death_check_nb _ _ _ _ _ ED5) as (d5 & Td5 & Pd5 & Id5 & Fd5).
      apply (piece_prefix _ (PAction id) s4' s5' d5 _ Td5); [apply Pd5; reflexivity|].
      apply (phase2_spec fuel s5' id).
      + unfold idle. rewrite Id5. exact Hi4.
      + eapply turn_on_tfl; [exact Fd5|]. exact Hon4.
      + right. left. reflexivity.
    - destruct Hs as (pre & atype & body & T5 & Ppre & I5 & F5 & Pb).
      assert (A5 : arun (mkA (PAction id) []) (pre ++ VActionStart id atype false :: body ++ [VActionEnd id atype false])
                   = Some (mkA (PAfterAction id) [])).
      { rewrite arun_app, (Ppre (mkA (PAction id) []) eq_refl). cbn [arun].
        unfold astep at 1. cbn [ph is_done empty_stk stk negb]. rewrite Z.eqb_refl.
        rewrite arun_app, (Pb (PAction id) eq_refl). cbn [arun]. unfold astep. cbn [ph is_done stk bracket_eqb].
        rewrite !Z.eqb_refl. cbn. reflexivity. }
      apply (piece_prefix _ (PAfterAction id) s4' s5 _ _ T5 A5).
      destruct (death_check cfg fuel s5 false) as [s5'|] eqn:ED5; cbn [piece]; auto.
      destruct (death_check_nb _ _ _ _ _ ED5) as (d5 & Td5 & Pd5 & Id5 & Fd5).
      apply (piece_prefix _ (PAfterAction id) s5 s5' d5 _ Td5); [apply Pd5; reflexivity|].
      apply (phase2_spec fuel s5' id).
      + unfold idle. rewrite Id5. exact I5.
      + eapply turn_on_tfl; [exact Fd5|]. eapply turn_on_tfl; [exact F5|]. exact Hon4.
      + right. right. reflexivity.
  Qed.

  Lemma turns_spec : forall fuel s p, idle s -> p = PWin0 \/ p = PBetween ->
    match turns cfg fuel s with
    | Stop s' => exists seg, trace s' = trace s ++ seg /\ arun (mkA p []) seg = Some (mkA PDone [])
    | _ => True
    end.
  Proof.
    induction fuel as [|f IH]; intros s p Hi Hp; cbn [turns]; [exact I|].
    pose proof (one_turn_spec f s p Hi Hp) as H1.
    destruct (one_turn cfg f s) as [s1|s1|s1|]; auto.
    destruct H1 as (seg & T & I1 & A).
    specialize (IH s1 PBetween I1 (or_intror eq_refl)).
    destruct (turns cfg f s1) as [s2|s2|s2|]; auto.
    destruct IH as (seg2 & T2 & A2). exists (seg ++ seg2).
    split; [rewrite T2, T, app_assoc; reflexivity|]. rewrite arun_app, A. exact A2.
  Qed.

  Definition C03_statement : Prop :=
    forall fuel s, start cfg fuel = Stop s -> protocol_ok (trace s) = true.

  Theorem C03_holds : C03_statement.
  Proof.
    intros fuel s H. unfold start in H.
    set (us := mk_units (c_units cfg) 1) in *.
    set (cs := map uid (filter uchar us)) in *.
    set (es := map uid (filter (fun u => negb (uchar u)) us)) in *.
    destruct (Turn.step F (Turn.init F) _) as [t1 outs] eqn:ET.
    match type of H with context [run_slot cfg fuel ?x LBattle 0 0] => set (s0 := x) in * end.
    destruct (run_slot cfg fuel s0 LBattle 0 0) as [s1|] eqn:ER; [|discriminate].
    destruct (run_slot_nb cfg _ _ _ _ _ _ ER) as (b & Tb & Pb & Ib & _).
    set (s1' := emit s1 [VBattleStart]) in *.
    assert (Hi1 : idle s1') by (unfold idle; cbn; rewrite Ib; reflexivity).
    set (init4 := [VInitialize; VCharactersAdded cs; VEnemiesAdded es; VTurnTargetsAdded (map u_id (order t1))]).
    assert (T1 : trace s1' = init4 ++ b ++ [VBattleStart]).
    { cbn [trace emit s1']. rewrite Tb. cbn [trace s0]. rewrite <- app_assoc. reflexivity. }
    assert (A1 : arun a0 (init4 ++ b ++ [VBattleStart]) = Some (mkA PWin0 [])).
    { rewrite arun_app. cbn [arun init4]. 
      change (arun (mkA PInit4 []) (b ++ [VBattleStart]) = Some (mkA PWin0 [])).
      rewrite arun_app, (Pb (mkA PInit4 []) eq_refl). reflexivity. }
    pose proof (execute_queue_spec cfg fuel s1' true Hi1) as HQ.
    unfold protocol_ok.
    destruct (execute_queue cfg fuel s1' true) as [s2|s2|s2|]; try discriminate.
    - destruct HQ as (q & Tq & Iq & _ & Pq).
      pose proof (turns_spec fuel s2 PWin0 Iq (or_introl eq_refl)) as HT. rewrite H in HT.
      destruct HT as (seg & Ts & As).
      rewrite Ts, arun_app, Tq, arun_app, T1, A1, (Pq PWin0 eq_refl), As. reflexivity.
    - inversion H; subst. destruct HQ as (q & Tq & Pq).
      rewrite Tq, arun_app, T1, A1, (Pq PWin0 eq_refl). reflexivity.
  Qed.
End Run.

(* ------------------------------------------------------------------ *)
(* Consequences of protocol acceptance                                  *)
(* ------------------------------------------------------------------ *)
Definition is_term (e : ev) : bool := match e with VTermination _ _ => true | _ => false end.

Lemma astep_live q e q1 : astep q e = Some q1 -> is_term e = false -> live q1.
Proof.
  unfold astep, live. destruct (is_done (ph q)) eqn:D; [discriminate|].
  destruct e; cbn [is_term]; try discriminate; intros H _;
    repeat match type of H with
           | context [match ?x with _ => _ end] => destruct x eqn:?; try discriminate
           | context [if ?x then _ else _] => destruct x eqn:?; try discriminate
           end;
    try (inversion H; subst; cbn; try reflexivity; try assumption; fail);
    try (unfold pop_if in H;
         repeat match type of H with
                | context [match ?x with _ => _ end] => destruct x eqn:?; try discriminate
                | context [if ?x then _ else _] => destruct x eqn:?; try discriminate
                end; inversion H; subst; cbn; assumption).
Qed.

Lemma arun_done_nil q tr q' : is_done (ph q) = true -> arun q tr = Some q' -> tr = [].
Proof.
  intros D. destruct tr as [|e r]; [reflexivity|]. cbn. unfold astep. rewrite D. discriminate.
Qed.

Lemma arun_one_termination : forall tr q q', arun q tr = Some q' -> live q -> is_done (ph q') = true ->
  exists pre e, tr = pre ++ [e] /\ is_term e = true /\ forallb (fun x => negb (is_term x)) pre = true.
Proof.
  induction tr as [|e r IH]; intros q q' H L D.
  - cbn in H. inversion H; subst. unfold live in L. congruence.
  - cbn [arun] in H. destruct (astep q e) as [q1|] eqn:E1; [|discriminate].
    destruct (is_term e) eqn:T.
    + (* Termination: the automaton is Done, nothing can follow *)
      assert (D1 : is_done (ph q1) = true).
      { destruct e; try discriminate. unfold astep in E1. unfold live in L. rewrite L in E1.
        destruct (_ && _); inversion E1; reflexivity. }
      rewrite (arun_done_nil _ _ _ D1 H). exists [], e. repeat split; auto.
    + pose proof (astep_live _ _ _ E1 T) as L1.
      destruct (IH _ _ H L1 D) as (pre & x & -> & Tx & Fp).
      exists (e :: pre), x. cbn. rewrite T, Fp. repeat split; auto.
Qed.

Theorem protocol_one_termination tr : protocol_ok tr = true -> one_termination tr = true.
Proof.
  unfold protocol_ok. destruct (arun a0 tr) as [q|] eqn:E; [|discriminate]. intros H.
  apply andb_prop in H. destruct H as [D _].
  destruct (arun_one_termination _ _ _ E eq_refl D) as (pre & e & -> & Te & Fp).
  unfold one_termination. rewrite rev_app_distr. cbn. destruct e; try discriminate.
  rewrite forallb_forall in Fp. apply forallb_forall. intros x Hx. apply in_rev in Hx.
  specialize (Fp x Hx). destruct x; cbn in *; congruence.
Qed.

(* non-vacuity witness *)
Definition demo_cfg : config :=
  mkCfg
    [mkUD 0 true 100 1000 100 0 1 1 TEnemies TEnemies TEnemies [0%nat; 0%nat] [] [];
     mkUD 100 false 80 100 0 0 0 0 TEnemies TEnemies TEnemies [1%nat] [] []]
    [[SInsertAbility 1 75 TSelfSel [] 2%nat; SAttack 3 [TPrimary; TPrimary] true 30];
     [SAttack 4 [TId 1] true 10];
     [SAttack 5 [TId 2] true 100; SSample]]
    [(1, [mkDec 0 100; mkDec 1 101])] [] [] [] [] [] [] [] [] [] 5 4.

Example demo_cfg_runs :
  match start demo_cfg 200 with
  | Stop s => protocol_ok (trace s) && (20 <=? Z.of_nat (length (trace s)))%Z
  | _ => false
  end = true.
Proof. vm_compute. reflexivity. Qed.
